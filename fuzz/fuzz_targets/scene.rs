#![no_main]
//! Coverage-guided call histories: C07 (no panic), C10 (history independence, idle hook) and C18
//! (premultiplied invariant) oracles inside the target, under AddressSanitizer.
use libfuzzer_sys::fuzz_target;
use rqv::fuzzglue::*;
use rqv::props::{c07, c10, c18};

fuzz_target!(|data: &[u8]| {
    if data.len() < 8 {
        return;
    }
    let cx = ctx();
    // RQV_FUZZ_ONLY=C07|C10|C18 restricts the target to one property's generator and oracle
    let sel = match std::env::var("RQV_FUZZ_ONLY").ok().as_deref() {
        Some("C07") => 0,
        Some("C10") => 1,
        Some("C18") => 2,
        _ => data[0] % 3,
    };
    match sel {
        0 => {
            if let Some(c) = case_from_bytes(&c07::strategy(&cx, 12), &data[1..]) {
                run_case("C07", "calls", &c, c07::check, true);
            }
        }
        1 => {
            if let Some(c) = case_from_bytes(&c10::strategy(&cx, 24), &data[1..]) {
                run_case("C10", "history", &c, c10::check, false);
            }
        }
        _ => {
            if let Some(c) = case_from_bytes(&c18::strategy(&cx), &data[1..]) {
                run_case("C18", "scenes", &c, c18::check, false);
            }
        }
    }
});
