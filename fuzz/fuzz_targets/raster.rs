#![no_main]
//! Coverage-guided polygons with the exact 4x4 supersampling model (C01) inside the target.
use libfuzzer_sys::fuzz_target;
use rqv::fuzzglue::*;
use rqv::props::c01;

fuzz_target!(|data: &[u8]| {
    if data.len() < 8 {
        return;
    }
    let _ = ctx();
    if let Some(c) = case_from_bytes(&c01::strategy(), data) {
        run_case("C01", "poly", &c, c01::check, false);
    }
});
