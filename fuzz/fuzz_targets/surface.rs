#![no_main]
//! Coverage-guided copy/blend_surface combinations with the block-transfer model (C15) inside the target.
use libfuzzer_sys::fuzz_target;
use rqv::fuzzglue::*;
use rqv::props::c15;

fuzz_target!(|data: &[u8]| {
    if data.len() < 8 {
        return;
    }
    let _ = ctx();
    if let Some(c) = case_from_bytes(&c15::strategy(), data) {
        run_case("C15", "random", &c, c15::check, true);
    }
});
