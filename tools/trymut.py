#!/usr/bin/env python3
"""Sensitivity probe: apply a one-spot source mutation to /repo's working tree, run checks, revert.

usage: trymut.py [--tests] <file-under-/repo/src> <old> <new> <check-id> [<check-id>...]
       trymut.py [--tests] --patch <diff> <check-id>...
Never leaves /repo dirty: reverts with `git checkout -- .` in a finally block.
"""
import subprocess, sys, os, time
args = sys.argv[1:]
run_tests = False
if args and args[0] == '--tests':
    run_tests = True; args = args[1:]
def sh(cmd, timeout=900, **kw):
    try:
        return subprocess.run(cmd, shell=True, capture_output=True, text=True, timeout=timeout, **kw)
    except subprocess.TimeoutExpired:
        subprocess.run("pkill -9 -f 'deps/raqote-' ; pkill -9 -f 'release/rqv'", shell=True)
        class R: pass
        r = R(); r.returncode = 124; r.stdout = 'TIMEOUT\n'; r.stderr = ''
        return r
st = sh('git -C /repo status --porcelain --untracked-files=no').stdout.strip()
if st:
    print('refusing: /repo is dirty:\n' + st); sys.exit(2)
try:
    if args[0] == '--patch':
        r = sh(f'git -C /repo apply {args[1]}')
        if r.returncode != 0:
            print('patch does not apply:', r.stderr); sys.exit(2)
        ids = args[2:]
    else:
        f, old, new = args[0], args[1], args[2]
        ids = args[3:]
        p = os.path.join('/repo/src', f)
        s = open(p).read()
        n = s.count(old)
        if n != 1:
            print(f'expected exactly one occurrence of {old!r} in {f}, found {n}'); sys.exit(2)
        open(p, 'w').write(s.replace(old, new))
    if run_tests:
        r = sh('cd /repo && timeout -s KILL 120 cargo test --offline 2>&1 | grep -E "^test result|FAILED|failed" | head -5; pkill -9 -f deps/raqote- ', timeout=200)
        print('repo tests:', r.stdout.strip().replace('\n', ' | '))
    for i in ids:
        tier = 'quick'
        if ':' in i:
            i, tier = i.split(':')
        t = time.time()
        r = sh(f'/verif/check {i} {tier}')
        lines = [l for l in r.stdout.splitlines() if l.startswith(('VIOLATION', 'failure', 'HARNESS', 'BUILD', 'GENERATOR', 'WATCHDOG', 'TIMEOUT'))]
        print(f'{i} {tier}: exit={r.returncode} {time.time()-t:.1f}s', ' || '.join(l[:300] for l in lines[:3]))
finally:
    sh('git -C /repo checkout -- .')
