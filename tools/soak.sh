#!/usr/bin/env bash
# usage: tools/soak.sh <tier> <seed>... ; runs every claimed check for each seed, prints non-zero exits
tier=$1; shift
cd "$(dirname "$0")/.."
# in a `vp run --with-repo` snapshot: build against the snapshot of /repo so that the live /repo can be edited meanwhile
if [ -n "${VP_RUN_REPO:-}" ] && [ "$(pwd)" != "/verif" ]; then ln -sfn "$VP_RUN_REPO" harness/raqote-src; echo "using repo snapshot $VP_RUN_REPO"; fi
./check --build >/dev/null || exit 2
ids=$(python3 -c "import json; print(' '.join(c['property_id'] for c in json.load(open('MANIFEST.json'))['checks']))")
for seed in "$@"; do
  for id in $ids; do
    out=$(VERIF_SEED=$seed ./check $id $tier 2>/dev/null); rc=$?
    last=$(echo "$out" | grep -v '^KNOWN' | tail -1 | cut -c1-220)
    if [ $rc -ne 0 ]; then echo "!! seed=$seed $id rc=$rc :: $(echo "$out" | grep -E '^(failure|VIOLATION|GENERATOR|WATCHDOG|HARNESS)' | head -3 | cut -c1-400)"; else echo "ok seed=$seed $last"; fi
  done
done
