#!/usr/bin/env python3
"""Re-run checks against a stored seeded change: reseed.py <name> <check-id>[:tier] ...  (updates meta.json)"""
import subprocess, sys, json, time
name = sys.argv[1]; checks = sys.argv[2:]
d = f"/verif/seeded/{name}"
def sh(cmd, timeout=3600):
    try:
        r = subprocess.run(cmd, shell=True, capture_output=True, text=True, timeout=timeout); return r.returncode, r.stdout + r.stderr
    except subprocess.TimeoutExpired:
        subprocess.run("pkill -9 -f 'release/rqv'", shell=True); return 124, 'TIMEOUT'
st = subprocess.run('git -C /repo status --porcelain --untracked-files=no', shell=True, capture_output=True, text=True).stdout.strip()
if st: print('refusing: /repo is dirty'); sys.exit(2)
meta = json.load(open(f"{d}/meta.json"))
try:
    rc, out = sh(f"git -C /repo apply {d}/patch.diff")
    if rc != 0: print('patch does not apply:', out); sys.exit(2)
    for c in checks:
        cid, tier = (c.split(':') + ['quick'])[:2]
        t = time.time(); rc, out = sh(f"/verif/check {cid} {tier}")
        lines = [l for l in out.splitlines() if l.startswith(('VIOLATION', 'failure', 'HARNESS', 'BUILD', 'GENERATOR', 'WATCHDOG', 'TIMEOUT'))]
        res = {"check": cid, "tier": tier, "exit": rc, "wall_s": round(time.time() - t, 1), "lines": [l[:400] for l in lines[:3]], "after_strengthening": True}
        meta["ran"].append(res)
        print(f"[{name}] {cid} {tier}: exit={rc} {res['wall_s']}s", ' || '.join(res['lines'])[:500])
finally:
    subprocess.run('git -C /repo checkout -- .', shell=True)
json.dump(meta, open(f"{d}/meta.json", 'w'), indent=1)
