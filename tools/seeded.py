#!/usr/bin/env python3
"""Confirm a sub-agent's seeded change in its scratch worktree, store it under /verif/seeded/<name>/,
and run checks against it (applied to /repo's working tree, reverted straight afterwards).

usage: seeded.py <name> <worktree> <property-id> <check-id>[:tier] ...
"""
import subprocess, sys, os, json, time, shutil
name, wt, prop = sys.argv[1], sys.argv[2], sys.argv[3]
checks = sys.argv[4:]
def sh(cmd, timeout=1800):
    try:
        r = subprocess.run(cmd, shell=True, capture_output=True, text=True, timeout=timeout)
        return r.returncode, r.stdout + r.stderr
    except subprocess.TimeoutExpired:
        subprocess.run("pkill -9 -f 'deps/raqote-' ; pkill -9 -f 'deps/demo-'; pkill -9 -f 'release/rqv'", shell=True)
        return 124, 'TIMEOUT'
meta = {"property": prop, "name": name, "worktree": wt, "ran": []}
# 1. confirm in the scratch worktree
rc, out = sh(f"cd {wt} && git diff -- src > patch.diff && test -s patch.diff && timeout -s KILL 600 cargo test --offline --lib 2>&1 | grep -E '^test result'")
meta["existing_tests_with_patch"] = out.strip()
ok_existing = 'ok. 44 passed' in out
rc, out = sh(f"cd {wt} && timeout -s KILL 600 cargo test --offline --test demo 2>&1 | grep -E '^test result|panicked' | head -5")
meta["demo_with_patch"] = out.strip()
demo_fails = 'FAILED' in out or 'failed' in out or 'panicked' in out or rc == 124
# (git stash is shared between worktrees: undo the change with git apply -R instead)
rc, out = sh(f"cd {wt} && git apply -R patch.diff && timeout -s KILL 600 cargo test --offline --test demo 2>&1 | grep -E '^test result' ; git apply patch.diff")
meta["demo_without_patch"] = out.strip()
demo_passes_clean = 'ok.' in out and 'FAILED' not in out
sh(f"cd {wt} && git checkout -- example.png")
meta["confirmed"] = bool(ok_existing and demo_fails and demo_passes_clean)
print(f"[{name}] existing tests pass with patch: {ok_existing}; demo fails with patch: {demo_fails}; demo passes without: {demo_passes_clean}")
d = f"/verif/seeded/{name}"
os.makedirs(d, exist_ok=True)
shutil.copy(f"{wt}/patch.diff", f"{d}/patch.diff")
if os.path.exists(f"{wt}/tests/demo.rs"):
    shutil.copy(f"{wt}/tests/demo.rs", f"{d}/demo.rs")
# 2. run checks against the change
st = subprocess.run('git -C /repo status --porcelain --untracked-files=no', shell=True, capture_output=True, text=True).stdout.strip()
if st:
    print('refusing: /repo is dirty'); sys.exit(2)
try:
    rc, out = sh(f"git -C /repo apply {d}/patch.diff")
    if rc != 0:
        print('patch does not apply to /repo:', out); meta["applies"] = False
    else:
        meta["applies"] = True
        for c in checks:
            cid, tier = (c.split(':') + ['quick'])[:2]
            t = time.time()
            rc, out = sh(f"/verif/check {cid} {tier}", timeout=3600)
            lines = [l for l in out.splitlines() if l.startswith(('VIOLATION', 'failure', 'HARNESS', 'BUILD', 'GENERATOR', 'WATCHDOG', 'TIMEOUT'))]
            res = {"check": cid, "tier": tier, "exit": rc, "wall_s": round(time.time() - t, 1), "lines": [l[:400] for l in lines[:3]]}
            meta["ran"].append(res)
            print(f"[{name}] {cid} {tier}: exit={rc} {res['wall_s']}s", ' || '.join(res['lines'])[:500])
finally:
    subprocess.run('git -C /repo checkout -- .', shell=True)
json.dump(meta, open(f"{d}/meta.json", 'w'), indent=1)
