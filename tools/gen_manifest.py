#!/usr/bin/env python3
"""Regenerate /verif/MANIFEST.json from the table below (single source of truth for the interface)."""
import json, subprocess, os
ROOT = os.path.dirname(os.path.dirname(os.path.abspath(__file__)))
props = [json.loads(l) for l in open(os.path.join(ROOT, 'properties.jsonl'))]
# id -> (technique, level text, level note); only listed ids are claimed
CLAIMED = json.load(open(os.path.join(ROOT, 'tools', 'claims.json')))
hook_commits = subprocess.run("git -C /repo log --format=%H --grep='^verif hook'", shell=True, capture_output=True, text=True).stdout.split()
checks, na = [], []
for p in props:
    i = p['id']
    if i in CLAIMED:
        c = CLAIMED[i]
        checks.append({
            "property_id": i,
            "quick_cmd": f"./check {i} quick",
            "thorough_cmd": f"./check {i} thorough",
            "evidence_file": f"/verif/evidence/{i}.json",
            "replay_cmd_template": "./check --replay {path}",
            "engine": c.get("engine", "rqv"),
            "level_claimed": {"category": "exploration", "text": c["level"], "design_ref": f"DESIGN.md section 5, {i}"},
            "level_note": c["note"],
            "technique": c["technique"],
        })
    else:
        na.append({"property_id": i, "reason": "check not built yet in this round (planned: see DESIGN.md section 5)"})
m = {
    "version": 1,
    "setup_cmd": "./check --build",
    "hooks": {
        "guard": "raqote_verif",
        "enable": "RUSTFLAGS=\"--cfg raqote_verif\" (set by ./check); no Cargo feature, Cargo.toml untouched",
        "baseline_off_cmd": "cd /repo && cargo test --workspace --no-fail-fast --offline",
        "source_commits": hook_commits,
        "add_only": True,
    },
    "engines": [
        {"name": "rqv", "path": "/verif/harness", "serves_properties": sorted(CLAIMED.keys()),
         "kind_free_text": "Rust binary driving proptest 1.11 TestRunner (16 shards, fixed seeds derived from VERIF_SEED, shrinking, JSON replay files) plus exhaustive enumerations; oracles are reference models written from the property statements"},
    ],
    "checks": checks,
    "notes": "Exit codes: 0 held, 1 violation (VIOLATION line + replay file), 2 inconclusive (build failure, watchdog, harness error, generator-health failure). Known findings: /verif/known_findings.json. Replays of fixed findings and shrunk seeded mutants: /verif/replays/<id>/.",
    "not_applicable": na,
}
json.dump(m, open(os.path.join(ROOT, 'MANIFEST.json'), 'w'), indent=1)
print("claimed:", len(checks), "not claimed:", len(na))
