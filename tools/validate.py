#!/opt/veriftools/pyvenv/bin/python
import json, jsonschema, glob, sys
ok = True
jsonschema.validate(json.load(open('/verif/MANIFEST.json')), json.load(open('/root/.vp/MANIFEST.schema.json')))
es = json.load(open('/root/.vp/EVIDENCE.schema.json'))
for f in sorted(glob.glob('/verif/evidence/*.json')):
    try:
        jsonschema.validate(json.load(open(f)), es)
    except Exception as e:
        ok = False; print('INVALID', f, str(e)[:200])
ps = json.load(open('/root/.vp/PROPERTIES.schema.json'))
for l in open('/verif/properties.jsonl'):
    jsonschema.validate(json.loads(l), ps)
print('schemas ok' if ok else 'schema errors')
sys.exit(0 if ok else 1)
