#!/usr/bin/env python3
"""Turn the shrunk failing cases that tools/regress_seeded.py kept (work/seeded_witness/<prop>--<name>.json in the
snapshot it ran in) into plain regression replays: replays/<prop>/seeded-<name>.json.

usage: tools/harvest_witnesses.py <dir with witnesses> ...
A witness is taken only if it is below 200 KB once minified and `./check --replay` passes for it on the clean tree
(/repo must be clean); nothing is overwritten. Every check replays its replays/<id>/ directory strictly before it
generates anything, so a stored change that comes back is then caught whatever the seed.
"""
import json, os, subprocess, sys

here = os.path.dirname(os.path.dirname(os.path.abspath(__file__)))
st = subprocess.run("git -C /repo status --porcelain --untracked-files=no", shell=True, capture_output=True, text=True).stdout.strip()
if st:
    print("refusing: /repo is dirty:", st)
    sys.exit(2)
taken = skipped = 0
for d in sys.argv[1:]:
    for fn in sorted(os.listdir(d)):
        if not fn.endswith(".json") or "--" not in fn:
            continue
        prop, name = fn[:-5].split("--", 1)
        dst = os.path.join(here, "replays", prop, f"seeded-{name}.json")
        if os.path.exists(dst):
            continue
        v = json.load(open(os.path.join(d, fn)))
        s = json.dumps(v, separators=(",", ":"))
        if len(s) > 200_000:
            print(f"skip {fn}: {len(s)} bytes")
            skipped += 1
            continue
        os.makedirs(os.path.dirname(dst), exist_ok=True)
        open(dst, "w").write(s + "\n")
        r = subprocess.run([os.path.join(here, "check"), "--replay", dst], capture_output=True, text=True)
        if r.returncode != 0 or "replay passes" not in r.stdout:
            print(f"skip {fn}: does not pass on the clean tree: {(r.stdout + r.stderr).strip()[:200]}")
            os.unlink(dst)
            skipped += 1
            continue
        taken += 1
print(f"taken {taken}, skipped {skipped}")
