#!/usr/bin/env bash
# usage: tools/soak_some.sh <tier> <seed> <id>... ; like soak.sh for the given checks only
tier=$1; seed=$2; shift 2
cd "$(dirname "$0")/.."
if [ -n "${VP_RUN_REPO:-}" ] && [ "$(pwd)" != "/verif" ]; then ln -sfn "$VP_RUN_REPO" harness/raqote-src; echo "using repo snapshot $VP_RUN_REPO"; fi
./check --build >/dev/null || exit 2
for id in "$@"; do
  out=$(VERIF_SEED=$seed ./check $id $tier 2>/dev/null); rc=$?
  last=$(echo "$out" | grep -v '^KNOWN' | tail -1 | cut -c1-220)
  if [ $rc -ne 0 ]; then echo "!! seed=$seed $id rc=$rc :: $(echo "$out" | grep -E '^(failure|VIOLATION|GENERATOR|WATCHDOG|HARNESS)' | head -3 | cut -c1-400)"; else echo "ok seed=$seed $last"; fi
done
