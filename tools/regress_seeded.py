#!/usr/bin/env python3
"""Regression over every stored seeded change: apply seeded/<name>/patch.diff to the repository the harness builds
from, run the quick tier of the property the change targets, expect exit 1, undo the patch.

usage: tools/regress_seeded.py [--shard=i/n] [name-filter ...]   (shard: every n-th directory starting at the i-th)
Meant for `vp run --with-repo -- python3 tools/regress_seeded.py`: it then works on the snapshot of /repo
($VP_RUN_REPO) and on the snapshot of /verif, so the live trees stay free. Prints one line per change and a summary;
exit 0 iff every change is caught. Writes nothing under seeded/.
"""
import json, os, subprocess, sys, time

here = os.path.dirname(os.path.dirname(os.path.abspath(__file__)))
repo = "/repo"
if os.environ.get("VP_RUN_REPO") and here != "/verif":
    repo = os.environ["VP_RUN_REPO"]
    link = os.path.join(here, "harness", "raqote-src")
    if os.path.islink(link):
        os.unlink(link)
    os.symlink(repo, link)
    print("using repo snapshot", repo, flush=True)
filters = [a for a in sys.argv[1:] if not a.startswith("--shard=")]
shard = next((a[len("--shard="):] for a in sys.argv[1:] if a.startswith("--shard=")), "0/1")
shard_i, shard_n = (int(v) for v in shard.split("/"))


def sh(cmd, timeout=3600):
    try:
        r = subprocess.run(cmd, shell=True, capture_output=True, text=True, timeout=timeout)
        return r.returncode, r.stdout + r.stderr
    except subprocess.TimeoutExpired:
        return 124, "TIMEOUT"


st = subprocess.run(f"git -C {repo} status --porcelain --untracked-files=no", shell=True, capture_output=True, text=True).stdout.strip()
if st:
    print("refusing: repository is dirty:", st)
    sys.exit(2)
names = sorted(os.listdir(os.path.join(here, "seeded")))
names = [n for k, n in enumerate(names) if k % shard_n == shard_i]
missed, broken = [], []
for name in names:
    d = os.path.join(here, "seeded", name)
    if not os.path.exists(os.path.join(d, "meta.json")):
        continue
    if filters and not any(f in name for f in filters):
        continue
    prop = json.load(open(os.path.join(d, "meta.json")))["property"]
    rc, out = sh(f"git -C {repo} apply {d}/patch.diff")
    if rc != 0:
        print(f"{name}: PATCH DOES NOT APPLY", flush=True)
        broken.append(name)
        continue
    try:
        t = time.time()
        rc, out = sh(f"{here}/check {prop} quick")
        line = next((l for l in out.splitlines() if l.startswith(("failure", "VIOLATION", "BUILD", "GENERATOR", "WATCHDOG", "HARNESS"))), "")
        print(f"{name}: {prop} exit={rc} {time.time() - t:.0f}s {line[:160]}", flush=True)
        if rc != 1 or "VIOLATION" not in out:
            missed.append(name)
        else:
            # keep the (shrunk) failing case: it can serve as a plain regression replay under replays/<id>/
            vio = next((l for l in out.splitlines() if l.startswith("VIOLATION")), "")
            src = vio.split("replay=")[-1].strip()
            if src and os.path.exists(src) and "/replays/" not in src:
                os.makedirs(os.path.join(here, "work", "seeded_witness"), exist_ok=True)
                import shutil
                shutil.copy(src, os.path.join(here, "work", "seeded_witness", f"{prop}--{name}.json"))
    finally:
        subprocess.run(f"git -C {repo} checkout -- .", shell=True)
print(f"SUMMARY: {len(names)} directories, missed {missed}, not applicable {broken}")
sys.exit(0 if not missed and not broken else 1)
