use raqote::*;
use rqv::props::c04::*;
use rqv::scene::*;
fn main() {
    let f = std::env::args().nth(1).unwrap();
    let v: serde_json::Value = serde_json::from_str(&std::fs::read_to_string(f).unwrap()).unwrap();
    let c: Case = serde_json::from_value(v["case"].clone()).unwrap();
    let t = to_transform(&c.xf);
    let tol = 0.1 / t.determinant().abs().sqrt();
    let flat = c.path.build().flatten(tol);
    let stroked = stroke_to_path(&flat, &c.style.build()).transform(&t);
    // split into subpaths, compute winding contributions at the query point
    let q = (19.5f64, 11.5f64);
    let mut subs: Vec<Vec<(f64, f64)>> = vec![];
    for op in &stroked.ops {
        match op {
            PathOp::MoveTo(p) => subs.push(vec![(p.x as f64, p.y as f64)]),
            PathOp::LineTo(p) => subs.last_mut().unwrap().push((p.x as f64, p.y as f64)),
            PathOp::Close => {}
            PathOp::CubicTo(a, b, p) => { let l = subs.last_mut().unwrap(); l.push((a.x as f64,a.y as f64)); l.push((b.x as f64,b.y as f64)); l.push((p.x as f64,p.y as f64)); }
            _ => {}
        }
    }
    let mut total = 0;
    for (i, s) in subs.iter().enumerate() {
        let w = rqv::geom::winding(&[s.clone()], q);
        if w != 0 {
            println!("sub {} winding {} pts {:?}", i, w, s);
        }
        total += w;
    }
    println!("total winding at {:?} = {} over {} subpaths", q, total, subs.len());
    // look at sample cells of that pixel
    for sy in 0..4 { let mut row = String::new(); for sx in 0..4 {
        let p = (19.0 + sx as f64 / 4.0 + 0.125, 11.0 + sy as f64 / 4.0);
        row += &format!("{:2} ", rqv::geom::winding(&subs, p)); }
        println!("{}", row); }
}
