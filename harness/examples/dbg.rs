use rqv::props::c04::*;
use rqv::stroke_model::*;
fn main() {
    let f = std::env::args().nth(1).unwrap();
    let v: serde_json::Value = serde_json::from_str(&std::fs::read_to_string(f).unwrap()).unwrap();
    let c: Case = serde_json::from_value(v["case"].clone()).unwrap();
    let got = render(&c);
    let polys = polylines(&c.path, 0.01);
    let margin = if c.path.has_curves() { 1.0 } else { 0.5 };
    let vd = verdicts(&polys, c.style.width.0 as f64, c.style.cap, c.style.join, c.style.miter.0 as f64, &c.xf, c.w, c.h, margin).unwrap();
    for y in 0..c.h {
        let mut s = String::new();
        for x in 0..c.w {
            let i = (y * c.w + x) as usize;
            let a = got[i] >> 24;
            let ch = match vd[i] { 1 => '#', 0 => '.', _ => '?' };
            s += &format!("{}{:02x} ", ch, a);
        }
        println!("{}", s);
    }
}
