use raqote::*;
fn show(p: &Path, aa: bool) {
    let mut dt = DrawTarget::new(4, 4);
    dt.fill(p, &Source::Solid(SolidSource { r: 255, g: 255, b: 255, a: 255 }), &DrawOptions { antialias: if aa { AntialiasMode::Gray } else { AntialiasMode::None }, ..DrawOptions::new() });
    for y in 0..4 { println!("{:?}", (0..4).map(|x| dt.get_data()[y*4+x] >> 24).collect::<Vec<_>>()); }
    println!();
}
fn main() {
    let mut pb = PathBuilder::new();
    pb.move_to(1.0, 0.0);
    pb.cubic_to(1.0, 0.0, 1.0, 0.0, 1.0, 2.0);
    pb.line_to(1.0, 0.0);
    let p = pb.finish();
    show(&p, false); show(&p, true);
    // same thing as quads
    let mut pb = PathBuilder::new();
    pb.move_to(1.0, 0.0);
    pb.quad_to(1.0, 0.0, 1.0, 2.0);
    pb.line_to(1.0, 0.0);
    show(&pb.finish(), true);
    let mut pb = PathBuilder::new();
    pb.move_to(1.0, 0.0);
    pb.quad_to(1.0, 0.5, 1.0, 2.0);
    pb.line_to(1.0, 0.0);
    show(&pb.finish(), true);
    let mut pb = PathBuilder::new();
    pb.move_to(1.5, 0.0);
    pb.quad_to(1.5, 1.0, 1.5, 2.0);
    pb.line_to(1.5, 0.0);
    show(&pb.finish(), true);
}
