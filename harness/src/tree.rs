//! Properly nested scene trees (clip groups and layer groups around drawing calls), their
//! generators, and the reference clip context (`scene_model`'s clip stack: every pushed rectangle
//! and every pushed path coverage is kept and intersected / multiplied).

use crate::compose::*;
use crate::gen::*;
use crate::raster4::*;
use crate::runner::Ctx;
use crate::scene::*;
use proptest::prelude::*;
use raqote::*;
use serde::{Deserialize, Serialize};

#[derive(Clone, Debug, PartialEq, Serialize, Deserialize)]
pub enum Node {
    Op(Op),
    /// push_clip_rect / push_clip(path) ... pop_clip
    Clip(Op, Vec<Node>),
    /// push_layer_with_blend(opacity, blend) ... pop_layer
    Layer(Fl, u8, Vec<Node>),
}

pub fn flatten(nodes: &[Node], out: &mut Vec<Op>) {
    for n in nodes {
        match n {
            Node::Op(o) => out.push(o.clone()),
            Node::Clip(push, inner) => {
                out.push(push.clone());
                flatten(inner, out);
                out.push(Op::PopClip);
            }
            Node::Layer(o, b, inner) => {
                out.push(Op::PushLayer(*o, *b));
                flatten(inner, out);
                out.push(Op::PopLayer);
            }
        }
    }
}

pub fn flat(nodes: &[Node]) -> Vec<Op> {
    let mut v = Vec::new();
    flatten(nodes, &mut v);
    v
}

pub fn count_draws(nodes: &[Node]) -> usize {
    nodes
        .iter()
        .map(|n| match n {
            Node::Op(o) => o.is_draw() as usize,
            Node::Clip(_, i) | Node::Layer(_, _, i) => count_draws(i),
        })
        .sum()
}

pub fn max_depth(nodes: &[Node], clip_only: bool) -> usize {
    nodes
        .iter()
        .map(|n| match n {
            Node::Op(_) => 0,
            Node::Clip(_, i) => 1 + max_depth(i, clip_only),
            Node::Layer(_, _, i) => (if clip_only { 0 } else { 1 }) + max_depth(i, clip_only),
        })
        .max()
        .unwrap_or(0)
}

// ---------------------------------------------------------------------------
// generation domain

#[derive(Clone, Debug)]
pub struct Domain {
    pub w: i32,
    pub h: i32,
    /// shapes on the quarter grid with transforms restricted to quarter-pixel translations (exact coverage)
    pub exact: bool,
    pub layers: bool,
    pub clips: bool,
    pub strokes: bool,
    pub images: bool,
    pub gradients: bool,
    pub all_modes: bool,
    pub max_depth: u32,
    pub max_nodes: usize,
}

impl Domain {
    pub fn exact(w: i32, h: i32) -> Domain {
        Domain { w, h, exact: true, layers: false, clips: true, strokes: false, images: true, gradients: true, all_modes: true, max_depth: 4, max_nodes: 5 }
    }
    pub fn free(w: i32, h: i32) -> Domain {
        Domain { w, h, exact: false, layers: true, clips: true, strokes: true, images: true, gradients: true, all_modes: true, max_depth: 3, max_nodes: 5 }
    }
}

/// translation by multiples of a quarter pixel
pub fn xf_qtrans() -> BoxedStrategy<Xf> {
    prop_oneof![
        3 => Just(IDENT),
        2 => (-8i32..=8, -8i32..=8).prop_map(|(x, y)| [1., 0., 0., 1., x as f32, y as f32]),
        3 => (-16i32..=16, -16i32..=16).prop_map(|(x, y)| [1., 0., 0., 1., x as f32 / 4.0, y as f32 / 4.0]),
    ]
    .boxed()
}

pub fn src_for(ctx: &Ctx, d: &Domain) -> BoxedStrategy<SrcSpec> {
    let ext = d.w.max(d.h) as f32;
    let mut v: Vec<(u32, BoxedStrategy<SrcSpec>)> = vec![(18, solid_src())];
    if d.images {
        v.push((6, image_src(4)));
    }
    if d.gradients {
        v.push((6, gradient_src(ctx, ext)));
        v.push((2, degenerate_gradient_src(ctx, ext)));
    }
    proptest::strategy::Union::new_weighted(v).boxed()
}

pub fn opts_for(d: &Domain) -> BoxedStrategy<Opts> {
    if d.all_modes {
        opts_any()
    } else {
        (alpha_f(), prop::bool::weighted(0.8)).prop_map(|(alpha, aa)| Opts { blend: SRC_OVER, alpha: Fl(alpha), aa }).boxed()
    }
}

pub fn style_any() -> BoxedStrategy<StyleSpec> {
    (prop_oneof![0.3f32..8.0, Just(1.0f32), Just(2.0f32)], 0u8..3, 0u8..3, prop_oneof![Just(10.0f32), 0.0f32..12.0], prop_oneof![4 => Just(vec![]), 1 => prop::collection::vec(0.5f32..8.0, 1..=4)], -10.0f32..20.0)
        .prop_map(|(width, cap, join, miter, dash, offset)| StyleSpec { width: Fl(width), cap, join, miter: Fl(miter), dash: dash.into_iter().map(Fl).collect(), offset: Fl(offset) })
        .boxed()
}

/// one drawing call
pub fn draw_op(ctx: &Ctx, d: &Domain) -> BoxedStrategy<Op> {
    let (w, h) = (d.w, d.h);
    let ext = w.max(h) as f32;
    let path: BoxedStrategy<PathSpec> = if d.exact { grid_poly(w, h, false) } else { prop_oneof![2 => poly_path(ext), 2 => curvy_path(ext), 1 => grid_poly(w, h, false)].boxed() };
    let rect: BoxedStrategy<(f32, f32, f32, f32)> = if d.exact {
        int_rect(w, h).prop_map(|(a, b, c, dd)| (a as f32, b as f32, (c - a) as f32, (dd - b) as f32)).boxed()
    } else {
        prop_oneof![
            2 => int_rect(w, h).prop_map(|(a, b, c, dd)| (a as f32, b as f32, (c - a) as f32, (dd - b) as f32)),
            1 => (coord(ext), coord(ext), 0.0f32..ext + 2.0, 0.0f32..ext + 2.0),
        ]
        .boxed()
    };
    let mut v: Vec<(u32, BoxedStrategy<Op>)> = vec![
        (5, (path.clone(), src_for(ctx, d), opts_for(d)).prop_map(|(p, s, o)| Op::Fill(p, s, o)).boxed()),
        (3, (rect, src_for(ctx, d), opts_for(d)).prop_map(|((x, y, rw, rh), s, o)| Op::FillRect(x, y, rw, rh, s, o)).boxed()),
        (1, px_premul().prop_map(Op::Clear).boxed()),
        (2, (src_for(ctx, d), -3..=w, -3..=h, mask_spec(w + 3, h + 3)).prop_map(|(s, x, y, m)| Op::Mask(s, x, y, m)).boxed()),
    ];
    if d.strokes && !d.exact {
        let sp = prop_oneof![2 => poly_path(ext), 1 => curvy_path(ext)];
        v.push((3, (sp, src_for(ctx, d), style_any(), opts_for(d)).prop_map(|(p, s, st, o)| Op::Stroke(p, s, st, o)).boxed()));
    }
    if d.images {
        let pos: BoxedStrategy<(f32, f32)> = if d.exact { (-4..=w, -4..=h).prop_map(|(x, y)| (x as f32, y as f32)).boxed() } else { prop_oneof![(-4..=w, -4..=h).prop_map(|(x, y)| (x as f32, y as f32)), (coord(ext), coord(ext))].boxed() };
        v.push((2, (pos.clone(), image_spec(5, 5), opts_for(d)).prop_map(|((x, y), img, o)| Op::DrawImageAt(x, y, img, o)).boxed()));
        if !d.exact {
            v.push((1, (pos, 0.5f32..ext + 2.0, 0.5f32..ext + 2.0, image_spec(5, 5), opts_for(d)).prop_map(|((x, y), iw, ih, img, o)| Op::DrawImageSized(iw, ih, x, y, img, o)).boxed()));
        }
    }
    proptest::strategy::Union::new_weighted(v).boxed()
}

pub fn clip_push(d: &Domain) -> BoxedStrategy<Op> {
    let (w, h) = (d.w, d.h);
    let ext = w.max(h) as f32;
    let path: BoxedStrategy<PathSpec> = if d.exact { prop_oneof![2 => grid_poly(w, h, false), 1 => grid_poly(w, h, true)].boxed() } else { prop_oneof![2 => poly_path(ext), 2 => curvy_path(ext), 1 => grid_poly(w, h, false)].boxed() };
    prop_oneof![
        1 => int_rect(w, h).prop_map(|(a, b, c, dd)| Op::PushClipRect(a, b, c, dd)),
        1 => path.prop_map(Op::PushClipPath),
    ]
    .boxed()
}

pub fn xf_for(d: &Domain) -> BoxedStrategy<Xf> {
    if d.exact {
        xf_qtrans()
    } else {
        prop_oneof![2 => xf_qtrans(), 3 => xf_invertible(6.0)].boxed()
    }
}

/// nested scene: leaves are draws and transform changes
pub fn tree(ctx: &Ctx, d: &Domain) -> BoxedStrategy<Vec<Node>> {
    let leaf = prop_oneof![
        5 => draw_op(ctx, d).prop_map(Node::Op),
        1 => xf_for(d).prop_map(|x| Node::Op(Op::SetXf(x))),
    ];
    let dd = d.clone();
    let node = leaf.prop_recursive(d.max_depth, 24, d.max_nodes as u32, move |inner| {
        let kids = prop::collection::vec(inner, 0..=3);
        let mut v: Vec<(u32, BoxedStrategy<Node>)> = Vec::new();
        if dd.clips {
            v.push((3, (clip_push(&dd), kids.clone()).prop_map(|(c, k)| Node::Clip(c, k)).boxed()));
        }
        if dd.layers {
            v.push((2, (alpha_f(), if dd.all_modes { blend_biased() } else { Just(SRC_OVER).boxed() }, kids.clone()).prop_map(|(o, b, k)| Node::Layer(Fl(o), b, k)).boxed()));
        }
        if v.is_empty() {
            v.push((1, kids.prop_map(|k| k.into_iter().next().unwrap_or(Node::Op(Op::SetXf(IDENT)))).boxed()));
        }
        proptest::strategy::Union::new_weighted(v).boxed()
    });
    (prop::collection::vec(node, 1..=d.max_nodes), any::<u32>())
        .prop_map(|(mut nodes, bits)| {
            let mut k = bits;
            repeat_clips(&mut nodes, None, &mut k);
            nodes
        })
        .boxed()
}

/// Coincidences that independent draws never produce: a clip group pushing exactly the clip an earlier sibling
/// pushed (the same path object pushed again after a pop), or exactly the clip of the group it is nested in.
fn repeat_clips(nodes: &mut [Node], parent: Option<&Op>, bits: &mut u32) {
    fn take(bits: &mut u32, n: u32) -> bool {
        *bits = bits.wrapping_mul(1664525).wrapping_add(1013904223);
        (*bits >> 16) % n == 0
    }
    let mut earlier: Option<Op> = None;
    for node in nodes.iter_mut() {
        match node {
            Node::Clip(push, kids) => {
                if let Some(e) = &earlier {
                    if take(bits, 3) {
                        *push = e.clone();
                    }
                } else if let Some(p) = parent {
                    if take(bits, 6) {
                        *push = p.clone();
                    }
                }
                earlier = Some(push.clone());
                let own = push.clone();
                repeat_clips(kids, Some(&own), bits);
            }
            Node::Layer(_, _, kids) => repeat_clips(kids, parent, bits),
            Node::Op(_) => {}
        }
    }
}

// ---------------------------------------------------------------------------
// reference clip context

#[derive(Clone, Debug)]
pub enum ClipEntry {
    Rect(i32, i32, i32, i32),
    /// admissible coverage bytes per pixel
    Path(Vec<Vec<u32>>),
}

#[derive(Clone, Debug, Default)]
pub struct ClipCtx {
    pub entries: Vec<ClipEntry>,
}

/// is the transform a translation by multiples of 1/4 (shapes on the quarter grid stay on it)?
pub fn is_qtrans(x: &Xf) -> bool {
    x[0] == 1.0 && x[1] == 0.0 && x[2] == 0.0 && x[3] == 1.0 && (x[4] * 4.0).fract() == 0.0 && (x[5] * 4.0).fract() == 0.0
}

pub fn translate_path(p: &PathSpec, x: &Xf) -> PathSpec {
    PathSpec {
        ops: p
            .ops
            .iter()
            .map(|o| match *o {
                POp::M(a, b) => POp::M(a + x[4], b + x[5]),
                POp::L(a, b) => POp::L(a + x[4], b + x[5]),
                other => other,
            })
            .collect(),
        evenodd: p.evenodd,
    }
}

/// exact AA coverage candidates of a quarter-grid polygon under a quarter translation; None if not exact
pub fn exact_cov(p: &PathSpec, xf: &Xf, w: i32, h: i32, aa: bool) -> Option<Vec<Vec<u32>>> {
    if p.has_curves() || !is_qtrans(xf) || !on_quarter_grid(p) {
        return None;
    }
    let q = translate_path(p, xf);
    let subs = subpaths_q(&q);
    let n = (w * h) as usize;
    Some(if aa {
        let cov = coverage_aa(w, h, &subs, q.evenodd);
        (0..n).map(|i| coverage_bytes(cov.kmin[i], cov.kmax[i])).collect()
    } else {
        coverage_noaa(w, h, &subs, q.evenodd).iter().map(|m| match m { 0 => vec![0], 1 => vec![255], _ => vec![0, 255] }).collect()
    })
}

impl ClipCtx {
    /// returns false when the pushed clip cannot be modelled exactly
    pub fn push(&mut self, op: &Op, xf: &Xf, w: i32, h: i32) -> bool {
        match op {
            Op::PushClipRect(a, b, c, d) => {
                self.entries.push(ClipEntry::Rect(*a, *b, *c, *d));
                true
            }
            // a path pushed under a non-invertible transform collapses onto a line or a point: its coverage is zero
            // everywhere, the clip hides everything until it is popped
            // (zero away from the collapsed image: within a pixel and a half of it the vertices' snapping to the
            // sample grid can open a sliver, and any coverage is admitted there)
            Op::PushClipPath(p) if xf_det(xf) == 0.0 && xf.iter().all(|v| v.is_finite()) => {
                let pts: Vec<(f64, f64)> = p.points().iter().map(|q| xf_apply(xf, (q.0 as f64, q.1 as f64))).collect();
                let mut cov = Vec::with_capacity((w * h) as usize);
                for i in 0..(w * h) {
                    let q = ((i % w) as f64 + 0.5, (i / w) as f64 + 0.5);
                    let mut d = f64::INFINITY;
                    for a in &pts {
                        for b in &pts {
                            d = d.min(crate::geom::dist_point_seg(q, *a, *b));
                        }
                    }
                    cov.push(if d > 1.5 { vec![0u32] } else { (0u32..=255).collect() });
                }
                self.entries.push(ClipEntry::Path(cov));
                true
            }
            Op::PushClipPath(p) => match exact_cov(p, xf, w, h, true) {
                Some(c) => {
                    self.entries.push(ClipEntry::Path(c));
                    true
                }
                None => false,
            },
            _ => panic!("not a clip push"),
        }
    }
    pub fn pop(&mut self) {
        self.entries.pop();
    }
    pub fn n_paths(&self) -> usize {
        self.entries.iter().filter(|e| matches!(e, ClipEntry::Path(_))).count()
    }
    pub fn n_rects(&self) -> usize {
        self.entries.len() - self.n_paths()
    }
    /// intersection of all rects (may be empty / inverted)
    pub fn in_rects(&self, x: i32, y: i32) -> bool {
        self.entries.iter().all(|e| match e {
            ClipEntry::Rect(a, b, c, d) => x >= *a && x < *c && y >= *b && y < *d,
            _ => true,
        })
    }
    /// admissible combined clip coverage bytes per pixel: 0 outside any rect, else the rounded product
    /// of the path coverages (one candidate per combination of per-path candidates)
    pub fn combined(&self, w: i32, h: i32) -> Vec<Vec<u32>> {
        let n = (w * h) as usize;
        let mut out = vec![vec![255u32]; n];
        for i in 0..n {
            let (x, y) = (i as i32 % w, i as i32 / w);
            if !self.in_rects(x, y) {
                out[i] = vec![0];
                continue;
            }
            // candidates are intervals [lo, hi] of the real product: merging close candidates widens the
            // interval instead of dropping values, so a product that may round to 0 or to 1 keeps both bytes
            let mut cands: Vec<(f64, f64)> = vec![(1.0, 1.0)];
            for e in &self.entries {
                if let ClipEntry::Path(c) = e {
                    let mut next: Vec<(f64, f64)> = Vec::new();
                    for v in &cands {
                        for b in &c[i] {
                            let f = *b as f64 / 255.0;
                            next.push((v.0 * f, v.1 * f));
                        }
                    }
                    // keep every candidate (dropping some would make the oracle reject correct pixels); merge
                    // those closer than a quarter of a byte so that the set stays below about a thousand values
                    next.sort_by(|a, b| a.partial_cmp(b).unwrap());
                    let mut merged: Vec<(f64, f64)> = Vec::new();
                    for (lo, hi) in next {
                        match merged.last_mut() {
                            Some(m) if lo - m.0 < 0.25 / 255.0 => m.1 = m.1.max(hi),
                            _ => merged.push((lo, hi)),
                        }
                    }
                    cands = merged;
                }
            }
            let mut bytes: Vec<u32> = Vec::new();
            for (lo, hi) in cands {
                let (b0, b1) = ((lo * 255.0).round() as u32, (hi * 255.0).round() as u32);
                for b in b0..=b1 {
                    if !bytes.contains(&b) {
                        bytes.push(b);
                    }
                }
                // a positive product is never certainly zero: the chained byte products of the implementation
                // may round it to 0 or to 1
                if hi > 0.0 && b1 == 0 && !bytes.contains(&1) {
                    bytes.push(1);
                }
            }
            // all-zero product must be exactly zero; all-full exactly 255 (products of 0/255 are exact)
            out[i] = bytes;
        }
        out
    }
}

/// what a drawing op contributes, when it can be modelled exactly
pub struct DrawModel {
    pub mode: u8,
    /// admissible shape coverage bytes per pixel
    pub ms: Vec<Vec<u32>>,
    /// source colour per pixel (already scaled by the global alpha), read from a Src render
    pub s_img: Vec<u32>,
}

/// source colour per pixel under transform `xf` and global alpha: Src at full coverage on a scratch target
pub fn source_pixels(src: &SrcSpec, alpha: f32, xf: &Xf, w: i32, h: i32) -> Vec<u32> {
    let mut sc = DrawTarget::new(w, h);
    let so = DrawOptions { blend_mode: BlendMode::Src, alpha, antialias: AntialiasMode::Gray };
    // shade through the untransformed fast path, with the source positioned as the transform dictates
    let t = to_transform(xf);
    if let Some(ti) = t.inverse() {
        let _ = ti;
        sc.set_transform(&t);
        // cover the whole surface in device space: fill the inverse image of the surface rectangle
        // (for translations this is just a shifted rectangle)
        let inv = xf_inverse64(xf).unwrap();
        let corners = [(0.0, 0.0), (w as f64, 0.0), (w as f64, h as f64), (0.0, h as f64)];
        let mut pb = PathBuilder::new();
        for (i, c) in corners.iter().enumerate() {
            let p = xf_apply64(&inv, (c.0 + if c.0 > 0.0 { 2.0 } else { -2.0 }, c.1 + if c.1 > 0.0 { 2.0 } else { -2.0 }));
            if i == 0 {
                pb.move_to(p.0 as f32, p.1 as f32)
            } else {
                pb.line_to(p.0 as f32, p.1 as f32)
            }
        }
        pb.close();
        src.with(|s| sc.fill(&pb.finish(), s, &so));
    }
    sc.get_data().to_vec()
}

pub fn model_draw(op: &Op, xf: &Xf, w: i32, h: i32) -> Option<DrawModel> {
    let n = (w * h) as usize;
    if xf_det(xf) == 0.0 {
        return None;
    }
    match op {
        Op::Fill(p, s, o) => {
            let ms = exact_cov(p, xf, w, h, o.aa)?;
            Some(DrawModel { mode: o.blend, ms, s_img: source_pixels(s, o.alpha.0, xf, w, h) })
        }
        Op::FillRect(x, y, rw, rh, s, o) => {
            let p = PathSpec::rect(*x, *y, *rw, *rh);
            let ms = exact_cov(&p, xf, w, h, o.aa)?;
            Some(DrawModel { mode: o.blend, ms, s_img: source_pixels(s, o.alpha.0, xf, w, h) })
        }
        Op::Clear(c) => Some(DrawModel { mode: MODE_SRC, ms: vec![vec![255]; n], s_img: vec![*c; n] }),
        Op::Mask(s, x, y, m) => {
            let mut ms = vec![vec![0u32]; n];
            for py in 0..h {
                for px in 0..w {
                    let (mx, my) = (px - x, py - y);
                    if mx >= 0 && my >= 0 && mx < m.w && my < m.h {
                        ms[(py * w + px) as usize] = vec![m.data[(my * m.w + mx) as usize] as u32];
                    }
                }
            }
            Some(DrawModel { mode: SRC_OVER, ms, s_img: source_pixels(s, 1.0, xf, w, h) })
        }
        Op::DrawImageAt(x, y, img, o) => {
            if !is_qtrans(xf) || x.fract() != 0.0 || y.fract() != 0.0 {
                return None;
            }
            let p = PathSpec::rect(*x, *y, img.w as f32, img.h as f32);
            let ms = exact_cov(&p, xf, w, h, o.aa)?;
            let src = SrcSpec::Image { img: img.clone(), repeat: false, nearest: false, xf: [1., 0., 0., 1., -*x, -*y] };
            Some(DrawModel { mode: o.blend, ms, s_img: source_pixels(&src, o.alpha.0, xf, w, h) })
        }
        _ => None,
    }
}
