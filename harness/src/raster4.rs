//! `raster4x4`: exact 4x4 supersampling coverage of polygons whose vertices lie
//! on the quarter-pixel grid, written from the statement of C01 and independent
//! of raqote's 16.16 edge stepping.
//!
//! For sample row Y (quarter units) an edge (x1,y1)->(x2,y2), y1 < y2, is active
//! iff y1 <= Y < y2; its exact crossing is the rational X = x1 + (Y-y1)(x2-x1)/(y2-y1)
//! and "rounded to the nearest quarter" is floor(X + 1/2).  The statement does not
//! fix ties and an incremental implementation accumulates < n * 2^-14 quarter units
//! of slope error after n steps, so the crossing is only known to lie in
//! [floor(X - d + 1/2), floor(X + d + 1/2)], d = n * 2^-14.  Cells whose inside-ness
//! differs between admissible choices are *uncertain* and are not judged.

use crate::scene::{POp, PathSpec};

pub type QPoint = (i64, i64);

/// Walk a path with the statement's cursor rules and return implicitly closed
/// subpaths in quarter units.  Coordinates must be exact multiples of 1/4.
pub fn subpaths_q(p: &PathSpec) -> Vec<Vec<QPoint>> {
    let q = |v: f32| -> i64 { (v as f64 * 4.0).round() as i64 };
    let mut subs: Vec<Vec<QPoint>> = Vec::new();
    let mut cur: Option<Vec<QPoint>> = None;
    for op in &p.ops {
        match *op {
            POp::M(x, y) => {
                if let Some(s) = cur.take() {
                    subs.push(s);
                }
                cur = Some(vec![(q(x), q(y))]);
            }
            POp::L(x, y) => match cur.as_mut() {
                Some(s) => s.push((q(x), q(y))),
                None => cur = Some(vec![(q(x), q(y))]),
            },
            POp::Z => {
                // closing returns the cursor to the subpath start: later segments start there
                if let Some(s) = cur.take() {
                    let start = s[0];
                    subs.push(s);
                    cur = Some(vec![start]);
                }
            }
            POp::Q(..) | POp::C(..) => panic!("raster4x4 handles polygons only"),
        }
    }
    if let Some(s) = cur.take() {
        subs.push(s);
    }
    subs.retain(|s| s.len() >= 2);
    subs
}

struct Edge {
    x1: i64,
    y1: i64,
    dx: i64,
    dy: i64,
    y2: i64,
    w: i32,
}

fn edges_of(subs: &[Vec<QPoint>]) -> Vec<Edge> {
    let mut es = Vec::new();
    for s in subs {
        let n = s.len();
        for i in 0..n {
            let a = s[i];
            let b = s[(i + 1) % n];
            if a.1 == b.1 {
                continue;
            }
            let (top, bot, w) = if a.1 < b.1 { (a, b, 1) } else { (b, a, -1) };
            es.push(Edge { x1: top.0, y1: top.1, dx: bot.0 - top.0, dy: bot.1 - top.1, y2: bot.1, w });
        }
    }
    es
}

fn floor_div(a: i128, b: i128) -> i128 {
    // b > 0
    let q = a / b;
    if a % b != 0 && a < 0 {
        q - 1
    } else {
        q
    }
}

/// crossing interval [r_lo, r_hi] (quarter cells) of edge e on sample row y
fn crossing(e: &Edge, y: i64) -> (i64, i64) {
    let n = (y - e.y1) as i128;
    let dy = e.dy as i128;
    // X = (x1*dy + n*dx)/dy ; X + 1/2 +- n/2^14  over denominator dy * 2^15
    let num = (e.x1 as i128 * dy + n * e.dx as i128) << 15;
    let half = dy << 14;
    let delta = n * 2 * dy;
    let den = dy << 15;
    let lo = floor_div(num + half - delta, den);
    let hi = floor_div(num + half + delta, den);
    (lo as i64, hi as i64)
}

#[inline]
fn inside(w: i32, evenodd: bool) -> bool {
    if evenodd {
        w & 1 != 0
    } else {
        w != 0
    }
}

/// 0 = certainly outside, 1 = certainly inside, 2 = uncertain; for cells 0..ncells of row y
fn row_cells(edges: &[Edge], y: i64, ncells: usize, evenodd: bool, out: &mut [u8]) {
    let mut act: Vec<(i64, i64, i32)> = Vec::new();
    for e in edges {
        if e.y1 <= y && y < e.y2 {
            let (lo, hi) = crossing(e, y);
            act.push((lo, hi, e.w));
        }
    }
    if act.is_empty() {
        for c in out.iter_mut().take(ncells) {
            *c = 0;
        }
        return;
    }
    for c in 0..ncells {
        let cc = c as i64;
        let mut base = 0i32;
        let mut amb: [i32; 12] = [0; 12];
        let mut na = 0usize;
        let mut overflow = false;
        for &(lo, hi, w) in &act {
            if hi <= cc {
                base += w;
            } else if lo <= cc {
                if na < amb.len() {
                    amb[na] = w;
                    na += 1;
                } else {
                    overflow = true;
                }
            }
        }
        out[c] = if overflow {
            2
        } else if na == 0 {
            inside(base, evenodd) as u8
        } else {
            let mut any_in = false;
            let mut any_out = false;
            for m in 0..(1u32 << na) {
                let mut w = base;
                for (i, a) in amb.iter().enumerate().take(na) {
                    if m & (1 << i) != 0 {
                        w += a;
                    }
                }
                if inside(w, evenodd) {
                    any_in = true
                } else {
                    any_out = true
                }
            }
            match (any_in, any_out) {
                (true, false) => 1,
                (false, true) => 0,
                _ => 2,
            }
        };
    }
}

pub struct Coverage {
    pub w: i32,
    pub h: i32,
    /// per pixel: number of cells certainly covered (of 16)
    pub kmin: Vec<u8>,
    /// per pixel: certainly + possibly covered
    pub kmax: Vec<u8>,
}

impl Coverage {
    /// is `alpha` an admissible antialiased coverage value for pixel i under C01's formula?
    pub fn admits(&self, i: usize, alpha: u32) -> bool {
        for k in self.kmin[i] as u32..=self.kmax[i] as u32 {
            if alpha == (16 * k).min(255) || (k >= 1 && alpha == 16 * k - 1) {
                return true;
            }
        }
        false
    }
    pub fn certain_zero(&self, i: usize) -> bool {
        self.kmax[i] == 0
    }
    pub fn certain_full(&self, i: usize) -> bool {
        self.kmin[i] == 16
    }
    pub fn partial_possible(&self, i: usize) -> bool {
        self.kmax[i] > 0 && self.kmin[i] < 16
    }
    pub fn uncertain_cells(&self) -> u64 {
        self.kmin.iter().zip(&self.kmax).map(|(a, b)| (*b - *a) as u64).sum()
    }
}

pub fn coverage_aa(w: i32, h: i32, subs: &[Vec<QPoint>], evenodd: bool) -> Coverage {
    let n = (w.max(0) * h.max(0)) as usize;
    let mut cov = Coverage { w, h, kmin: vec![0; n], kmax: vec![0; n] };
    if n == 0 {
        return cov;
    }
    let edges = edges_of(subs);
    let ncells = (4 * w) as usize;
    let mut row = vec![0u8; ncells];
    for y in 0..(4 * h) as i64 {
        row_cells(&edges, y, ncells, evenodd, &mut row);
        let py = (y / 4) as usize;
        for (c, v) in row.iter().enumerate() {
            let i = py * w as usize + c / 4;
            match *v {
                1 => {
                    cov.kmin[i] += 1;
                    cov.kmax[i] += 1;
                }
                2 => cov.kmax[i] += 1,
                _ => {}
            }
        }
    }
    cov
}

/// aliased rendering: per pixel 0 = must stay untouched, 1 = must be fully painted, 2 = undecided
pub fn coverage_noaa(w: i32, h: i32, subs: &[Vec<QPoint>], evenodd: bool) -> Vec<u8> {
    let n = (w.max(0) * h.max(0)) as usize;
    let mut out = vec![0u8; n];
    if n == 0 {
        return out;
    }
    let edges = edges_of(subs);
    let ncells = (4 * w) as usize;
    let mut row = vec![0u8; ncells];
    for py in 0..h as usize {
        row_cells(&edges, 4 * py as i64, ncells, evenodd, &mut row);
        for px in 0..w as usize {
            // pixel p is painted iff some covered span [s,e) has floor(s/4) <= p < floor(e/4),
            // i.e. iff quarter cell 4p+3 of the first sample row is covered
            out[py * w as usize + px] = row[4 * px + 3];
        }
    }
    out
}

/// winding-rule independent helper: does any vertex lie off the quarter grid?
pub fn on_quarter_grid(p: &PathSpec) -> bool {
    p.points().iter().all(|(x, y)| (x * 4.0).fract() == 0.0 && (y * 4.0).fract() == 0.0)
}
