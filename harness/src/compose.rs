//! `compositor`: per-pixel reference written from the statement of C03.
//!
//! new = source-over of (source scaled by coverage x clip coverage)        for SrcOver
//! new = previous + (blend(source, previous) - previous) * coverage x clip  for every other mode
//! in real arithmetic; exact at weight 0 and 1, +-TOL/255 per channel in between.

use crate::scene::*;

/// tolerance (in 1/255 units) for partial weights: the shipped primitives deviate by at most
/// 2.01/255 from real arithmetic; 3 leaves one unit for a differently rounded correct implementation
pub const TOL: f64 = 3.0;

/// real-arithmetic expectation for one pixel; m and c are coverage bytes (c = 255 when there is no clip path)
pub fn expected_real(mode: u8, s: u32, d: u32, m: u32, c: u32) -> [f64; 4] {
    let w = (m as f64 / 255.0) * (c as f64 / 255.0);
    let sc = ch(s);
    let dc = ch(d);
    let mut out = [0.0; 4];
    if mode == SRC_OVER {
        let sa = sc[0] as f64 / 255.0;
        for i in 0..4 {
            out[i] = sc[i] as f64 * w + dc[i] as f64 * (1.0 - sa * w);
        }
    } else {
        let b = ch(blend_px(mode, s, d));
        for i in 0..4 {
            out[i] = dc[i] as f64 + (b[i] as f64 - dc[i] as f64) * w;
        }
    }
    out
}

pub fn within(got: u32, want: [f64; 4], tol: f64) -> bool {
    let g = ch(got);
    (0..4).all(|i| (g[i] as f64 - want[i]).abs() <= tol)
}

/// Judge one pixel.  `ms`/`cs`: admissible coverage / clip-coverage bytes (several when the exact
/// 4x4 model leaves 16k vs 16k-1 or a tie open).  Returns Err(description) on a mismatch.
pub fn judge_pixel(mode: u8, s: u32, d: u32, ms: &[u32], cs: &[u32], got: u32, tol: f64) -> Result<&'static str, String> {
    let all_m0 = ms.iter().all(|m| *m == 0);
    let all_c0 = cs.iter().all(|c| *c == 0);
    if all_m0 || all_c0 {
        return if got == d { Ok("w=0") } else { Err(format!("weight is 0 (coverage {:?}, clip {:?}) so the pixel must keep {} but is {}", ms, cs, hex(d), hex(got))) };
    }
    if mode == SRC_OVER && s >> 24 == 0 && s == 0 {
        return if got == d { Ok("srcover-transparent") } else { Err(format!("SrcOver of a fully transparent source must keep {} but gives {}", hex(d), hex(got))) };
    }
    let all_full = ms.iter().all(|m| *m == 255) && cs.iter().all(|c| *c == 255);
    if all_full {
        let b = blend_px(mode, s, d);
        return if got == b {
            Ok("w=1")
        } else {
            Err(format!("full coverage and no partial clip: expected exactly blend_{}({}, {}) = {} but got {}", blend_name(mode), hex(s), hex(d), hex(b), hex(got)))
        };
    }
    for m in ms {
        for c in cs {
            if within(got, expected_real(mode, s, d, *m, *c), tol) {
                return Ok("partial");
            }
        }
    }
    let e = expected_real(mode, s, d, ms[0], cs[0]);
    Err(format!(
        "mode {} src {} dst {} coverage {:?} clip {:?}: got {} but the coverage-weighted formula gives a,r,g,b = [{:.1}, {:.1}, {:.1}, {:.1}] (+-{})",
        blend_name(mode),
        hex(s),
        hex(d),
        ms,
        cs,
        hex(got),
        e[0],
        e[1],
        e[2],
        e[3],
        tol
    ))
}

/// admissible mask bytes for k covered cells of 16 (C01's formula)
pub fn coverage_bytes(kmin: u8, kmax: u8) -> Vec<u32> {
    let mut v = Vec::new();
    for k in kmin as u32..=kmax as u32 {
        let a = (16 * k).min(255);
        if !v.contains(&a) {
            v.push(a);
        }
        if k >= 1 && k < 16 {
            v.push(16 * k - 1);
        }
    }
    v
}

/// the source colour the shaders must deliver for a solid colour under global alpha (within 1/255, exact at alpha 1)
pub fn solid_scaled_ok(color: u32, alpha: f32, got: u32) -> bool {
    let a = (alpha * 255.0 + 0.5) as u32 as f64;
    if a >= 255.0 {
        return got == color;
    }
    let c = ch(color);
    let g = ch(got);
    (0..4).all(|i| (g[i] as f64 - c[i] as f64 * a / 255.0).abs() <= 1.0)
}
