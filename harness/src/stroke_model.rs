//! `stroke_region`: the region a stroke must cover, built from the statement of C04 —
//! a rectangle of the stroke width around every segment, the selected join on the outer side of
//! every interior vertex (and of the closing vertex of closed subpaths), the selected cap at both
//! ends of every open subpath — as a union of convex pieces in user space, with exact point
//! membership and a sampled union boundary for distances in device space.

use crate::geom::*;
use crate::scene::*;
use std::collections::HashMap;

#[derive(Clone, Debug)]
pub enum Piece {
    /// convex polygon
    Poly(Vec<P>),
    /// circular sector: centre, radius, unit directions a and b spanning a cone < 180 degrees
    Sector { c: P, r: f64, a: P, b: P },
    /// half disc on the side of `dir`
    HalfDisc { c: P, r: f64, dir: P },
}

fn norm(v: P) -> P {
    let l = len(v);
    (v.0 / l, v.1 / l)
}
fn left(v: P) -> P {
    (-v.1, v.0)
}

impl Piece {
    pub fn contains(&self, q: P) -> bool {
        match self {
            Piece::Poly(p) => {
                let n = p.len();
                let mut pos = false;
                let mut neg = false;
                // (a point on the boundary belongs to the piece; the tests leave a few ulps of slack, or a point that
                // lies exactly on the edge shared by two pieces could fall outside both by rounding)
                for i in 0..n {
                    let e = sub(p[(i + 1) % n], p[i]);
                    let v = sub(q, p[i]);
                    let c = cross(e, v);
                    let eps = 1e-9 * len(e) * len(v);
                    if c > eps {
                        pos = true;
                    } else if c < -eps {
                        neg = true;
                    }
                }
                !(pos && neg)
            }
            Piece::Sector { c, r, a, b } => {
                let v = sub(q, *c);
                if dot(v, v) > r * r * (1.0 + 1e-9) {
                    return false;
                }
                let s = cross(*a, *b);
                if s == 0.0 {
                    return false;
                }
                let sg = s.signum();
                let eps = 1e-9 * len(v);
                cross(*a, v) * sg >= -eps && cross(v, *b) * sg >= -eps
            }
            Piece::HalfDisc { c, r, dir } => {
                let v = sub(q, *c);
                dot(v, v) <= r * r * (1.0 + 1e-9) && dot(v, *dir) >= -1e-9 * len(v)
            }
        }
    }

    pub fn bbox(&self) -> (f64, f64, f64, f64) {
        match self {
            Piece::Poly(p) => {
                let mut b = (f64::INFINITY, f64::INFINITY, f64::NEG_INFINITY, f64::NEG_INFINITY);
                for q in p {
                    b.0 = b.0.min(q.0);
                    b.1 = b.1.min(q.1);
                    b.2 = b.2.max(q.0);
                    b.3 = b.3.max(q.1);
                }
                b
            }
            Piece::Sector { c, r, .. } | Piece::HalfDisc { c, r, .. } => (c.0 - r, c.1 - r, c.0 + r, c.1 + r),
        }
    }

    /// boundary samples (point, outward unit normal) at most `spacing` apart (user units)
    pub fn boundary(&self, spacing: f64, out: &mut Vec<(P, P)>) {
        let seg = |a: P, b: P, nrm: P, out: &mut Vec<(P, P)>| {
            let l = dist(a, b);
            let n = ((l / spacing).ceil() as usize).max(1);
            for i in 0..=n {
                let t = i as f64 / n as f64;
                out.push((add(mul(a, 1.0 - t), mul(b, t)), nrm));
            }
        };
        let arc = |c: P, r: f64, a0: f64, a1: f64, out: &mut Vec<(P, P)>| {
            let l = (a1 - a0).abs() * r;
            let n = ((l / spacing).ceil() as usize).max(2);
            for i in 0..=n {
                let t = a0 + (a1 - a0) * i as f64 / n as f64;
                let d = (t.cos(), t.sin());
                out.push((add(c, mul(d, r)), d));
            }
        };
        match self {
            Piece::Poly(p) => {
                let n = p.len();
                let mut area = 0.0;
                for i in 0..n {
                    area += cross(p[i], p[(i + 1) % n]);
                }
                let sg = if area >= 0.0 { 1.0 } else { -1.0 };
                for i in 0..n {
                    let (a, b) = (p[i], p[(i + 1) % n]);
                    if a == b {
                        continue;
                    }
                    let d = norm(sub(b, a));
                    // outward normal: to the right of the edge for a counter-clockwise (area > 0) polygon
                    let nrm = mul((d.1, -d.0), sg);
                    seg(a, b, nrm, out);
                }
            }
            Piece::Sector { c, r, a, b } => {
                let a0 = a.1.atan2(a.0);
                let mut a1 = b.1.atan2(b.0);
                // go the short way
                while a1 - a0 > std::f64::consts::PI {
                    a1 -= 2.0 * std::f64::consts::PI;
                }
                while a1 - a0 < -std::f64::consts::PI {
                    a1 += 2.0 * std::f64::consts::PI;
                }
                arc(*c, *r, a0, a1, out);
                let sg = cross(*a, *b).signum();
                // straight edges: outward normals point away from the cone
                seg(*c, add(*c, mul(*a, *r)), mul((a.1, -a.0), sg), out);
                seg(*c, add(*c, mul(*b, *r)), mul((-b.1, b.0), sg), out);
            }
            Piece::HalfDisc { c, r, dir } => {
                let a0 = dir.1.atan2(dir.0) - std::f64::consts::FRAC_PI_2;
                arc(*c, *r, a0, a0 + std::f64::consts::PI, out);
                let l = left(*dir);
                seg(add(*c, mul(l, *r)), sub(*c, mul(l, *r)), mul(*dir, -1.0), out);
            }
        }
    }
}

/// one polyline of user-space points (consecutive duplicates removed), closed or open
#[derive(Clone, Debug)]
pub struct Poly {
    pub pts: Vec<P>,
    pub closed: bool,
}

/// user-space polylines of a path: curves are evaluated finely (deviation <= `tol` user units)
pub fn polylines(p: &PathSpec, tol: f64) -> Vec<Poly> {
    let subs = walk(p, &IDENT);
    let mut out = Vec::new();
    for s in subs {
        let mut pts = vec![s.start];
        for e in &s.elems {
            match e {
                Elem::Line(_, b) => pts.push(*b),
                _ => {
                    // uniform parameter steps fine enough for the requested deviation: a chord over a parameter
                    // step h deviates by at most |P''| h^2 / 8, and |P''| <= 6 x (control polygon length) for
                    // cubics (2 x for quadratics), so n >= sqrt(l / tol) steps suffice at any scale of the units
                    let l = e.ctrl_len();
                    let n = (((l / tol.max(1e-300)).sqrt()).ceil() as usize).clamp(4, 2000);
                    for i in 1..=n {
                        pts.push(e.at(i as f64 / n as f64));
                    }
                }
            }
        }
        pts.dedup();
        let mut closed = s.closed;
        if closed && pts.len() >= 2 && pts[0] == pts[pts.len() - 1] {
            pts.pop();
        }
        if pts.len() < 2 {
            closed = false;
        }
        out.push(Poly { pts, closed });
    }
    out
}

#[derive(Clone, Copy, Debug, PartialEq)]
pub enum Take {
    /// every threshold decision taken the smaller way (region certainly covered)
    Smaller,
    /// ... the larger way (region possibly covered)
    Larger,
}

pub struct Built {
    pub pieces: Vec<Piece>,
    /// did any threshold decision (miter limit, outer side at a (nearly) straight or reversed vertex) depend on `take`?
    pub ambiguous: bool,
}

fn join_pieces(v: P, d1: P, d2: P, hw: f64, join: u8, miter_limit: f64, take: Take, out: &mut Vec<Piece>, ambiguous: &mut bool) {
    let (n1, n2) = (left(d1), left(d2));
    let turn = cross(d1, d2);
    let straight = dot(d1, d2) > 0.0;
    let eps = 1e-3;
    let mut sides: Vec<f64> = Vec::new();
    if turn.abs() < eps {
        *ambiguous = true;
        if straight {
            // (nearly) collinear continuation: no join shape to speak of; the larger way adds both tiny wedges
            if take == Take::Larger {
                sides.push(1.0);
                sides.push(-1.0);
            }
        } else {
            // (nearly) a reversal: which side is "outer" is a rounding matter
            if take == Take::Larger {
                sides.push(1.0);
                sides.push(-1.0);
            } else if join == 1 {
                // round join: whichever side is taken as outer, the sector runs from one normal through the
                // direction beyond the vertex to (almost) the opposite normal; both candidates contain the
                // cone around d1 that stops 0.002 rad short of the two normals, so that cone is certain
                let tilt = 2e-3;
                let a = norm(add(mul(n1, -1.0), mul(d1, tilt)));
                let b = norm(add(n1, mul(d1, tilt)));
                out.push(Piece::Sector { c: v, r: hw, a, b });
            }
        }
    } else {
        // turning left (turn > 0) opens the gap on the right side, i.e. along -normal
        sides.push(if turn > 0.0 { -1.0 } else { 1.0 });
    }
    for s in sides {
        let (o1, o2) = (mul(n1, s), mul(n2, s));
        match join {
            1 => {
                // round
                if cross(o1, o2).abs() > 1e-12 {
                    out.push(Piece::Sector { c: v, r: hw, a: o1, b: o2 });
                } else if dot(o1, o2) < 0.0 {
                    // exact reversal: half disc beyond the vertex
                    out.push(Piece::HalfDisc { c: v, r: hw, dir: d1 });
                }
            }
            0 => {
                // miter when 1/sin(theta/2) <= limit, i.e. 2 <= limit^2 (1 + cos(phi)), phi = turning angle
                let cosphi = dot(n1, n2);
                let lhs = miter_limit * miter_limit * (1.0 + cosphi);
                // (the library's f32 normals put an error of about 1e-6 on 1 + cos(phi), i.e. 1e-6 x limit^2 on lhs;
                // the band is ten times that plus a constant, not a fraction of limit^2, so that large limits stay decidable)
                let near = (lhs - 2.0).abs() < 2e-2 + 1e-5 * miter_limit * miter_limit;
                let use_miter = if near {
                    *ambiguous = true;
                    take == Take::Larger
                } else {
                    lhs >= 2.0
                };
                let denom = 1.0 + dot(o1, o2);
                if use_miter && denom > 1e-9 {
                    let tip = add(v, mul(add(o1, o2), hw / denom));
                    out.push(Piece::Poly(vec![v, add(v, mul(o1, hw)), tip, add(v, mul(o2, hw))]));
                } else if !(use_miter && denom <= 1e-9) || take == Take::Larger {
                    out.push(Piece::Poly(vec![v, add(v, mul(o1, hw)), add(v, mul(o2, hw))]));
                }
            }
            _ => out.push(Piece::Poly(vec![v, add(v, mul(o1, hw)), add(v, mul(o2, hw))])),
        }
    }
}

fn cap_pieces(p: P, outward: P, hw: f64, cap: u8, out: &mut Vec<Piece>) {
    match cap {
        1 => out.push(Piece::HalfDisc { c: p, r: hw, dir: outward }),
        2 => {
            let n = left(outward);
            let e = add(p, mul(outward, hw));
            out.push(Piece::Poly(vec![add(p, mul(n, hw)), add(e, mul(n, hw)), sub(e, mul(n, hw)), sub(p, mul(n, hw))]));
        }
        _ => {}
    }
}

/// pieces of the stroke of `polys` (user space). cap: 0 butt 1 round 2 square; join: 0 miter 1 round 2 bevel
pub fn build(polys: &[Poly], width: f64, cap: u8, join: u8, miter_limit: f64, take: Take) -> Built {
    let mut pieces = Vec::new();
    let mut ambiguous = false;
    if !(width > 0.0) {
        return Built { pieces, ambiguous };
    }
    let hw = width / 2.0;
    for poly in polys {
        let n = poly.pts.len();
        if n < 2 {
            continue;
        }
        let nseg = if poly.closed { n } else { n - 1 };
        let mut dirs = Vec::with_capacity(nseg);
        for i in 0..nseg {
            let (a, b) = (poly.pts[i], poly.pts[(i + 1) % n]);
            dirs.push(norm(sub(b, a)));
            let nr = left(dirs[i]);
            pieces.push(Piece::Poly(vec![add(a, mul(nr, hw)), add(b, mul(nr, hw)), sub(b, mul(nr, hw)), sub(a, mul(nr, hw))]));
        }
        if poly.closed {
            for i in 0..n {
                let prev = dirs[(i + n - 1) % n];
                join_pieces(poly.pts[i], prev, dirs[i], hw, join, miter_limit, take, &mut pieces, &mut ambiguous);
            }
        } else {
            for i in 1..n - 1 {
                join_pieces(poly.pts[i], dirs[i - 1], dirs[i], hw, join, miter_limit, take, &mut pieces, &mut ambiguous);
            }
            cap_pieces(poly.pts[0], mul(dirs[0], -1.0), hw, cap, &mut pieces);
            cap_pieces(poly.pts[n - 1], dirs[nseg - 1], hw, cap, &mut pieces);
        }
    }
    Built { pieces, ambiguous }
}

/// A region in device space: pieces in user space + transform; supports membership of device points
/// and "is any union-boundary sample within r of this device point".
pub struct Region {
    pub pieces: Vec<Piece>,
    inv: [f64; 6],
    /// device-space bounding boxes of the pieces
    dev_bbox: Vec<(f64, f64, f64, f64)>,
    /// union-boundary samples in device space, bucketed by 1 px cells
    grid: HashMap<(i32, i32), Vec<P>>,
    pub n_samples: usize,
}

impl Region {
    /// `extent`: side of the surface in device px; only what lies within 32 px of it is bucketed and sampled
    /// (a miter spike may run thousands of pixels off the surface)
    pub fn new(pieces: Vec<Piece>, xf: &Xf, spacing_dev: f64, extent: f64) -> Option<Region> {
        let (wlo, whi) = (-32.0f64, extent + 32.0);
        let inv = xf_inverse64(xf)?;
        // singular values of the linear part
        let (a, b, c, d) = (xf[0] as f64, xf[1] as f64, xf[2] as f64, xf[3] as f64);
        let s1 = a * a + b * b + c * c + d * d;
        let s2 = ((a * a + b * b - c * c - d * d).powi(2) + 4.0 * (a * c + b * d).powi(2)).sqrt();
        let smax = ((s1 + s2) / 2.0).sqrt();
        let spacing_user = spacing_dev / smax;
        let eps_user = 1e-4 / smax;
        let dev_bbox: Vec<(f64, f64, f64, f64)> = pieces
            .iter()
            .map(|p| {
                let b = p.bbox();
                let mut o = (f64::INFINITY, f64::INFINITY, f64::NEG_INFINITY, f64::NEG_INFINITY);
                for q in [(b.0, b.1), (b.2, b.1), (b.2, b.3), (b.0, b.3)] {
                    let t = xf_apply(xf, q);
                    o.0 = o.0.min(t.0);
                    o.1 = o.1.min(t.1);
                    o.2 = o.2.max(t.0);
                    o.3 = o.3.max(t.1);
                }
                o
            })
            .collect();
        // bucket pieces by 4 px device cells for the "is the outside point in another piece" test
        let mut pgrid: HashMap<(i32, i32), Vec<usize>> = HashMap::new();
        for (i, b) in dev_bbox.iter().enumerate() {
            if !b.0.is_finite() {
                continue;
            }
            if b.2 < wlo || b.3 < wlo || b.0 > whi || b.1 > whi {
                continue;
            }
            let (x0, y0, x1, y1) = ((b.0.max(wlo) / 4.0).floor() as i32, (b.1.max(wlo) / 4.0).floor() as i32, (b.2.min(whi) / 4.0).floor() as i32, (b.3.min(whi) / 4.0).floor() as i32);
            if (x1 - x0) as i64 * (y1 - y0) as i64 > 250_000 {
                return None;
            }
            for y in y0..=y1 {
                for x in x0..=x1 {
                    pgrid.entry((x, y)).or_default().push(i);
                }
            }
        }
        let mut grid: HashMap<(i32, i32), Vec<P>> = HashMap::new();
        let mut n_samples = 0;
        let mut buf = Vec::new();
        for (i, piece) in pieces.iter().enumerate() {
            buf.clear();
            piece.boundary(spacing_user, &mut buf);
            for (pt, nrm) in &buf {
                let outside = add(*pt, mul(*nrm, eps_user));
                let od = xf_apply(xf, outside);
                if od.0 < wlo || od.1 < wlo || od.0 > whi || od.1 > whi {
                    continue;
                }
                let cell = ((od.0 / 4.0).floor() as i32, (od.1 / 4.0).floor() as i32);
                let covered = pgrid.get(&cell).map_or(false, |v| v.iter().any(|j| *j != i && pieces[*j].contains(outside)));
                if !covered {
                    let d = xf_apply(xf, *pt);
                    grid.entry((d.0.floor() as i32, d.1.floor() as i32)).or_default().push(d);
                    n_samples += 1;
                }
            }
        }
        Some(Region { pieces, inv, dev_bbox, grid, n_samples })
    }

    pub fn contains_dev(&self, p: P) -> bool {
        let q = xf_apply64(&self.inv, p);
        for (i, b) in self.dev_bbox.iter().enumerate() {
            if p.0 < b.0 - 1e-9 || p.0 > b.2 + 1e-9 || p.1 < b.1 - 1e-9 || p.1 > b.3 + 1e-9 {
                continue;
            }
            if self.pieces[i].contains(q) {
                return true;
            }
        }
        false
    }

    /// is some union-boundary sample within `r` device px of p?
    pub fn boundary_within(&self, p: P, r: f64) -> bool {
        let k = r.ceil() as i32 + 1;
        let (cx, cy) = (p.0.floor() as i32, p.1.floor() as i32);
        let r2 = r * r;
        for y in cy - k..=cy + k {
            for x in cx - k..=cx + k {
                if let Some(v) = self.grid.get(&(x, y)) {
                    for s in v {
                        let (dx, dy) = (s.0 - p.0, s.1 - p.1);
                        if dx * dx + dy * dy <= r2 {
                            return true;
                        }
                    }
                }
            }
        }
        false
    }
}

pub const SPACING: f64 = 1.0 / 16.0;

/// Verdict per pixel of a w x h surface: 1 = must be fully painted, 0 = must be untouched, 2 = not judged.
/// `margin` is the statement's margin (0.5 px for polylines, 1 px for curves, 0.75 px for dashes).
pub fn verdicts(polys: &[Poly], width: f64, cap: u8, join: u8, miter_limit: f64, xf: &Xf, w: i32, h: i32, margin: f64) -> Option<Vec<u8>> {
    let inner = build(polys, width, cap, join, miter_limit, Take::Smaller);
    let extent = w.max(h) as f64;
    let r_in = Region::new(inner.pieces, xf, SPACING, extent)?;
    let r_out = if inner.ambiguous { Some(Region::new(build(polys, width, cap, join, miter_limit, Take::Larger).pieces, xf, SPACING, extent)?) } else { None };
    let r_out_ref = r_out.as_ref().unwrap_or(&r_in);
    // the whole pixel must clear the boundary by the margin: half diagonal + sampling slack
    let reach = margin + 0.70711 + SPACING / 2.0 + 1e-3;
    let mut out = vec![2u8; (w * h) as usize];
    for y in 0..h {
        for x in 0..w {
            let p = (x as f64 + 0.5, y as f64 + 0.5);
            let i = (y * w + x) as usize;
            if r_in.contains_dev(p) {
                if !r_in.boundary_within(p, reach) {
                    out[i] = 1;
                }
            } else if !r_out_ref.contains_dev(p) && !r_out_ref.boundary_within(p, reach) {
                out[i] = 0;
            }
        }
    }
    Some(out)
}
