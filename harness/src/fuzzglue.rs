//! Glue for the libFuzzer targets: turn fuzzer bytes into a structured case through the same proptest
//! strategies (proptest's PassThrough RNG feeds the bytes to the strategy as its random stream), run
//! one property part's oracle strictly, and report a failure by panicking.

use crate::runner::*;
use proptest::strategy::{Strategy, ValueTree};
use proptest::test_runner::{Config, RngAlgorithm, TestRng, TestRunner};
use std::collections::HashSet;
use std::sync::OnceLock;

pub fn case_from_bytes<S: Strategy>(strat: &S, data: &[u8]) -> Option<S::Value> {
    // The fuzzer's bytes seed proptest's ChaCha generator (32-byte seed = two FNV hashes of the input
    // spread over the seed).  proptest's PassThrough generator (bytes used directly as the random stream)
    // was tried first and abandoned: every prop_flat_map halves the remaining bytes, and once a branch
    // runs dry it yields zeros, on which rand 0.9's rejection sampling of non-power-of-two ranges never
    // terminates.  So libFuzzer here keeps and mutates inputs that reached new code, but a mutation gives
    // an unrelated case: the engine is random generation with corpus retention, sanitizers and the
    // semantic oracles in-process.
    let mut seed = [0u8; 32];
    let h1 = crate::runner::fnv(data);
    let mut x = h1 | 1;
    for chunk in seed.chunks_mut(8) {
        x ^= x << 13;
        x ^= x >> 7;
        x ^= x << 17;
        chunk.copy_from_slice(&x.to_le_bytes());
    }
    let rng = TestRng::from_seed(RngAlgorithm::ChaCha, &seed);
    let mut runner = TestRunner::new_with_rng(Config { failure_persistence: None, ..Config::default() }, rng);
    strat.new_tree(&mut runner).ok().map(|t| t.current())
}

static KNOWN: OnceLock<Vec<KnownFinding>> = OnceLock::new();

pub fn known() -> &'static [KnownFinding] {
    KNOWN.get_or_init(|| {
        install_panic_hook();
        let root = std::env::var("VERIF_ROOT").unwrap_or_else(|_| "/verif".to_string());
        load_known_findings(&root)
    })
}

pub fn ctx() -> Ctx {
    Ctx { tier: Tier::Thorough, seed: 0, excl: known().iter().filter(|k| k.is_open()).map(|k| k.key.clone()).collect::<HashSet<_>>() }
}

/// run `check` on `case`; a library panic matching a listed finding is tolerated, anything else aborts the
/// process (= a libFuzzer crash, with the case printed)
pub fn run_case<C: std::fmt::Debug + serde::Serialize>(prop: &str, part: &str, case: &C, check: impl FnOnce(&C) -> CheckResult, panic_is_violation: bool) {
    let r = guarded(|| check(case));
    let fail = |msg: String| -> ! {
        let v = serde_json::json!({"property": prop, "part": part, "seed": 0, "tier": "fuzz", "message": msg, "case": case});
        eprintln!("FUZZ-FAILURE property={} part={}: {}\nREPLAY-JSON {}", prop, part, msg, v);
        std::process::abort();
    };
    match r {
        Ok(Ok(_)) => {}
        Ok(Err(m)) => fail(m),
        Err(p) => {
            if p.in_harness() {
                fail(format!("HARNESS {}", p.describe()));
            }
            if known().iter().any(|k| k.matches_panic(&p)) {
                return;
            }
            if std::env::var("RQV_BT").is_ok() {
                eprintln!("BACKTRACE:\n{}", p.bt);
            }
            if panic_is_violation {
                fail(p.describe());
            }
            // a library panic while judging another property: that is C07's finding, report it as such
            let v = serde_json::json!({"property": "C07", "part": format!("{}:{}", prop, part), "message": p.describe(), "case": case});
            eprintln!("FUZZ-FAILURE property=C07 (found via {} generator): {}\nREPLAY-JSON {}", prop, p.describe(), v);
            std::process::abort();
        }
    }
}
