//! Generic machinery: sharded proptest execution with shrinking, panic capture,
//! watchdog, evidence files, replay files and the known-findings protocol.
//!
//! A *property* is a list of *parts*; each part has its own case type, strategy
//! and oracle.  Parts are type-erased behind `PartDyn` so that the driver, the
//! replay command and the C07 "no panic on anybody's generator" sweep can treat
//! them uniformly.

use proptest::strategy::{BoxedStrategy, Strategy, ValueTree};
use proptest::test_runner::{Config, RngSeed, TestCaseError, TestError, TestRunner};
use serde::de::DeserializeOwned;
use serde::Serialize;
use serde_json::{json, Value};
use std::cell::{Cell, RefCell};
use std::collections::{BTreeMap, HashSet};
use std::fmt::Debug;
use std::panic::{catch_unwind, AssertUnwindSafe};
use std::sync::atomic::{AtomicU64, Ordering};
use std::sync::{Arc, Mutex};
use std::time::Instant;

pub const NSHARDS: usize = 16;

#[derive(Clone, Copy, PartialEq, Eq, Debug)]
pub enum Tier {
    Quick,
    Thorough,
}

impl Tier {
    pub fn name(self) -> &'static str {
        match self {
            Tier::Quick => "quick",
            Tier::Thorough => "thorough",
        }
    }
}

/// What a single executed case reports when the oracle is satisfied.
#[derive(Default, Clone, Debug)]
pub struct Outcome {
    pub nontrivial: bool,
    pub fp: u64,
    pub classes: Vec<&'static str>,
    /// number of elementary judgements (pixels, queries…) made by this case
    pub judged: u64,
    /// judgements skipped as undecidable (ties, margins)
    pub undecided: u64,
    /// judgements attributed to a listed open finding by its exact signature (not judged, counted)
    pub excluded_known: u64,
}

impl Outcome {
    pub fn new() -> Self {
        Default::default()
    }
    pub fn class(&mut self, c: &'static str) {
        if !self.classes.contains(&c) {
            self.classes.push(c);
        }
    }
    pub fn class_if(&mut self, cond: bool, c: &'static str) {
        if cond {
            self.class(c);
        }
    }
}

pub type CheckResult = Result<Outcome, String>;

/// Run context shared by strategies and oracles.
#[derive(Clone, Debug)]
pub struct Ctx {
    pub tier: Tier,
    pub seed: u64,
    /// keys of open known findings whose trigger the generators steer around
    pub excl: HashSet<String>,
}

impl Ctx {
    pub fn excluded(&self, key: &str) -> bool {
        self.excl.contains(key)
    }
}

// ---------------------------------------------------------------------------
// panic capture

#[derive(Clone, Debug)]
pub struct PanicInfo {
    pub file: String,
    pub line: u32,
    pub msg: String,
    /// symbolised backtrace (function names incl. inlined frames), used by known-finding signatures
    pub bt: String,
}

impl PanicInfo {
    pub fn in_harness(&self) -> bool {
        self.file.contains("harness/src") || self.file.contains("fuzz_targets")
    }
    pub fn describe(&self) -> String {
        format!("panic at {}:{}: {}", short_file(&self.file), self.line, self.msg)
    }
}

fn short_file(f: &str) -> String {
    // strip the registry prefix so messages are stable across machines
    if let Some(i) = f.find("/registry/src/") {
        let rest = &f[i + "/registry/src/".len()..];
        if let Some(j) = rest.find('/') {
            return rest[j + 1..].to_string();
        }
    }
    f.to_string()
}

thread_local! {
    static LAST_PANIC: RefCell<Option<PanicInfo>> = RefCell::new(None);
    static QUIET: Cell<bool> = Cell::new(false);
}

pub fn install_panic_hook() {
    let default = std::panic::take_hook();
    std::panic::set_hook(Box::new(move |info| {
        let (file, line) = info
            .location()
            .map(|l| (l.file().to_string(), l.line()))
            .unwrap_or(("?".into(), 0));
        let msg = if let Some(s) = info.payload().downcast_ref::<&str>() {
            s.to_string()
        } else if let Some(s) = info.payload().downcast_ref::<String>() {
            s.clone()
        } else {
            "<non-string panic>".to_string()
        };
        let bt = if file.contains("harness/src") { String::new() } else { std::backtrace::Backtrace::force_capture().to_string() };
        LAST_PANIC.with(|p| *p.borrow_mut() = Some(PanicInfo { file, line, msg, bt }));
        if !QUIET.with(|q| q.get()) {
            default(info);
        }
    }));
}

/// Run `f`, converting an unwind into `Err(PanicInfo)`.
pub fn guarded<R>(f: impl FnOnce() -> R) -> Result<R, PanicInfo> {
    let prev = QUIET.with(|q| q.replace(true));
    LAST_PANIC.with(|p| *p.borrow_mut() = None);
    let r = catch_unwind(AssertUnwindSafe(f));
    QUIET.with(|q| q.set(prev));
    match r {
        Ok(v) => Ok(v),
        Err(_) => Err(LAST_PANIC.with(|p| p.borrow_mut().take()).unwrap_or(PanicInfo {
            file: "?".into(),
            line: 0,
            msg: "unknown panic".into(),
            bt: String::new(),
        })),
    }
}

// ---------------------------------------------------------------------------
// known findings

#[derive(Clone, Debug, serde::Deserialize)]
pub struct KnownFinding {
    pub property: String,
    pub key: String,
    /// "finding" (open, suppressing only its own signature) or "fixed"
    pub status: String,
    #[serde(default)]
    pub commit: Option<String>,
    /// for status=finding: replay file (relative to /verif) that must still fail with `msg_contains`
    #[serde(default)]
    pub witness: Option<String>,
    /// substring the failure message of the witness must contain
    #[serde(default)]
    pub msg_contains: Option<String>,
    /// "checked" / "unchecked": the finding (and its witness) only exists in that build profile
    #[serde(default)]
    pub profile: Option<String>,
    /// panic signature: a library panic whose location/message match is this finding, not a new one
    #[serde(default)]
    pub panic_file_contains: Option<String>,
    #[serde(default)]
    pub panic_line: Option<u32>,
    #[serde(default)]
    pub panic_msg_contains: Option<String>,
    /// at least one of these must occur in the symbolised backtrace (narrows a shared panic site to one root cause)
    #[serde(default)]
    pub panic_bt_contains_any: Vec<String>,
    pub what: String,
}

impl KnownFinding {
    pub fn is_open(&self) -> bool {
        self.status == "finding" && self.applies_to_this_build()
    }
    /// checked = overflow checks and debug assertions on (the normal profile of every check)
    pub fn applies_to_this_build(&self) -> bool {
        match self.profile.as_deref() {
            Some("checked") => cfg!(debug_assertions),
            Some("unchecked") => !cfg!(debug_assertions),
            _ => true,
        }
    }
    pub fn matches_panic(&self, p: &PanicInfo) -> bool {
        if !self.is_open() {
            return false;
        }
        let (Some(f), Some(m)) = (&self.panic_file_contains, &self.panic_msg_contains) else {
            return false;
        };
        p.file.contains(f.as_str())
            && p.msg.contains(m.as_str())
            && self.panic_line.map(|l| l == p.line).unwrap_or(true)
            // the backtrace narrows a shared panic site to one root cause; in sanitizer builds frames are
            // symbolised without module paths ("blend", "lum"), so the narrowing is only applied when
            // qualified names are available
            && (self.panic_bt_contains_any.is_empty() || !p.bt.contains("sw_composite::") || self.panic_bt_contains_any.iter().any(|n| p.bt.contains(n.as_str())))
    }
}

pub fn load_known_findings(verif_root: &str) -> Vec<KnownFinding> {
    let path = format!("{}/known_findings.json", verif_root);
    match std::fs::read_to_string(&path) {
        Ok(s) => {
            let v: Value = serde_json::from_str(&s).expect("known_findings.json must parse");
            serde_json::from_value(v["findings"].clone()).expect("known_findings.json: findings[]")
        }
        Err(_) => Vec::new(),
    }
}

// ---------------------------------------------------------------------------
// per-shard statistics

#[derive(Clone, Debug)]
pub enum FailKind {
    Violation,
    LibPanic(PanicInfo),
    HarnessPanic(PanicInfo),
}

#[derive(Clone, Debug)]
pub struct Failure {
    pub part: String,
    pub message: String,
    pub case: Value,
    pub kind: FailKind,
    pub shard: usize,
}

#[derive(Default, Debug)]
pub struct Stats {
    pub evals: u64,
    pub nontrivial: HashSet<u64>,
    pub classes: BTreeMap<&'static str, u64>,
    pub samples: Vec<Value>,
    pub judged: u64,
    pub undecided: u64,
    pub discarded_panics: u64,
    pub excluded_known: u64,
    pub known_panic_keys: HashSet<String>,
    pub first_panic: Option<(PanicInfo, Value)>,
    pub failure: Option<Failure>,
    pub exhaustive: bool,
}

impl Stats {
    pub fn merge(&mut self, o: Stats) {
        self.evals += o.evals;
        self.nontrivial.extend(o.nontrivial);
        for (k, v) in o.classes {
            *self.classes.entry(k).or_insert(0) += v;
        }
        for s in o.samples {
            if self.samples.len() < 4 {
                self.samples.push(s);
            }
        }
        self.judged += o.judged;
        self.undecided += o.undecided;
        self.discarded_panics += o.discarded_panics;
        self.excluded_known += o.excluded_known;
        self.known_panic_keys.extend(o.known_panic_keys);
        if self.first_panic.is_none() {
            self.first_panic = o.first_panic;
        }
        if self.failure.is_none() {
            self.failure = o.failure;
        }
        self.exhaustive |= o.exhaustive;
    }
    pub fn record(&mut self, o: &Outcome, sample: impl FnOnce() -> Value, want_samples: bool) {
        self.evals += 1;
        self.judged += o.judged;
        self.undecided += o.undecided;
        self.excluded_known += o.excluded_known;
        for c in &o.classes {
            *self.classes.entry(c).or_insert(0) += 1;
        }
        if o.nontrivial {
            let new = self.nontrivial.insert(o.fp);
            if new && want_samples && self.samples.len() < 2 {
                self.samples.push(sample());
            }
        }
    }
}

/// How a part is being driven.
#[derive(Clone, Copy, PartialEq, Eq, Debug)]
pub enum Mode {
    /// judge the property; a library panic only discards the case
    Normal,
    /// the property *is* "no panic" (C07): library panics are violations
    PanicIsViolation,
    /// C07 sweeping another property's generator: oracle verdicts ignored, library panics are violations
    PanicOnly,
}

pub struct Progress {
    /// (case index, start time in ms since run start) of the case each shard is executing
    pub cur: Vec<(AtomicU64, AtomicU64)>,
    /// lazily serialisable copy of the case each shard is executing (for the watchdog)
    pub slot: Vec<Mutex<Option<Box<dyn Fn() -> Value + Send>>>>,
    pub t0: Instant,
}

impl Progress {
    pub fn new() -> Arc<Progress> {
        Arc::new(Progress {
            cur: (0..NSHARDS).map(|_| (AtomicU64::new(0), AtomicU64::new(u64::MAX))).collect(),
            slot: (0..NSHARDS).map(|_| Mutex::new(None)).collect(),
            t0: Instant::now(),
        })
    }
    pub fn begin(&self, shard: usize, idx: u64) {
        self.cur[shard].0.store(idx, Ordering::Relaxed);
        self.cur[shard].1.store(self.t0.elapsed().as_millis() as u64, Ordering::Relaxed);
    }
    pub fn end(&self, shard: usize) {
        self.cur[shard].1.store(u64::MAX, Ordering::Relaxed);
    }
}

pub struct ShardArgs<'a> {
    pub shard: usize,
    pub nshards: usize,
    pub seed: u64,
    pub ncases: u64,
    pub mode: Mode,
    pub known: &'a [KnownFinding],
    pub progress: &'a Progress,
}

pub trait PartDyn: Send + Sync {
    fn name(&self) -> &'static str;
    fn cases(&self, tier: Tier) -> u64;
    fn run_shard(&self, a: &ShardArgs) -> Stats;
    /// run one stored case; Err(String) is the failure message
    fn replay(&self, case: &Value, mode: Mode) -> Result<Result<Outcome, String>, PanicInfo>;
    /// may this part's generator be swept by C07 in PanicOnly mode?
    fn in_c07_domain(&self) -> bool;
    /// regenerate (without executing) case number `index` of a shard: lets the watchdog save a stuck case
    fn regenerate(&self, _seed: u64, _shard: usize, _index: u64) -> Option<Value> {
        None
    }
}

// ---------------------------------------------------------------------------
// proptest-driven part

pub struct Part<C> {
    pub name: &'static str,
    pub quick: u64,
    pub thorough: u64,
    pub strat: Box<dyn Fn() -> BoxedStrategy<C> + Send + Sync>,
    pub check: Box<dyn Fn(&C) -> CheckResult + Send + Sync>,
    pub c07: bool,
}

pub fn part<C, S, F>(name: &'static str, quick: u64, thorough: u64, strat: S, check: F) -> Box<dyn PartDyn>
where
    C: Clone + Debug + Serialize + DeserializeOwned + Send + Sync + 'static,
    S: Fn() -> BoxedStrategy<C> + Send + Sync + 'static,
    F: Fn(&C) -> CheckResult + Send + Sync + 'static,
{
    Box::new(Part { name, quick, thorough, strat: Box::new(strat), check: Box::new(check), c07: true })
}

/// like `part`, but its generator leaves C07's stated domain (not swept by C07)
pub fn part_outside_c07<C, S, F>(name: &'static str, quick: u64, thorough: u64, strat: S, check: F) -> Box<dyn PartDyn>
where
    C: Clone + Debug + Serialize + DeserializeOwned + Send + Sync + 'static,
    S: Fn() -> BoxedStrategy<C> + Send + Sync + 'static,
    F: Fn(&C) -> CheckResult + Send + Sync + 'static,
{
    Box::new(Part { name, quick, thorough, strat: Box::new(strat), check: Box::new(check), c07: false })
}

fn derive_seed(seed: u64, part: &str, shard: usize) -> u64 {
    // FNV-1a over (seed, part name, shard): deterministic, no std hasher randomness
    let mut h: u64 = 0xcbf29ce484222325;
    let mut feed = |b: u8| {
        h ^= b as u64;
        h = h.wrapping_mul(0x100000001b3);
    };
    for b in seed.to_le_bytes() {
        feed(b);
    }
    for b in part.bytes() {
        feed(b);
    }
    for b in (shard as u64).to_le_bytes() {
        feed(b);
    }
    h
}

pub fn fnv(bytes: &[u8]) -> u64 {
    let mut h: u64 = 0xcbf29ce484222325;
    for b in bytes {
        h ^= *b as u64;
        h = h.wrapping_mul(0x100000001b3);
    }
    h
}

/// fingerprint of any Debug-printable case
pub fn fp_of<T: Debug>(t: &T) -> u64 {
    fnv(format!("{:?}", t).as_bytes())
}

enum Judged {
    Ok(Outcome),
    Fail(String),
    LibPanic(PanicInfo),
    KnownPanic(String),
    HarnessPanic(PanicInfo),
}

fn judge<C>(check: &(dyn Fn(&C) -> CheckResult + Send + Sync), case: &C, known: &[KnownFinding]) -> Judged {
    match guarded(|| check(case)) {
        Ok(Ok(o)) => Judged::Ok(o),
        Ok(Err(m)) => Judged::Fail(m),
        Err(p) => {
            if p.in_harness() {
                Judged::HarnessPanic(p)
            } else if let Some(k) = known.iter().find(|k| k.matches_panic(&p)) {
                Judged::KnownPanic(k.key.clone())
            } else {
                Judged::LibPanic(p)
            }
        }
    }
}

impl<C> PartDyn for Part<C>
where
    C: Clone + Debug + Serialize + DeserializeOwned + Send + Sync + 'static,
{
    fn name(&self) -> &'static str {
        self.name
    }
    fn cases(&self, tier: Tier) -> u64 {
        match tier {
            Tier::Quick => self.quick,
            Tier::Thorough => self.thorough,
        }
    }
    fn in_c07_domain(&self) -> bool {
        self.c07
    }

    fn run_shard(&self, a: &ShardArgs) -> Stats {
        let stats = RefCell::new(Stats::default());
        if a.ncases == 0 {
            return stats.into_inner();
        }
        let failed: Cell<Option<FailKind>> = Cell::new(None);
        let idx = Cell::new(0u64);
        let cfg = Config {
            cases: a.ncases as u32,
            failure_persistence: None,
            rng_seed: RngSeed::Fixed(derive_seed(a.seed, self.name, a.shard)),
            max_shrink_iters: 50_000,
            max_shrink_time: 30_000,
            max_global_rejects: 1 << 20,
            ..Config::default()
        };
        let mut runner = TestRunner::new(cfg);
        let strat = (self.strat)();
        let want_samples = a.shard == 0;
        let res = runner.run(&strat, |case| {
            let shrinking = {
                let f = failed.take();
                let s = f.is_some();
                failed.set(f);
                s
            };
            if !shrinking {
                a.progress.begin(a.shard, idx.get());
                {
                    let copy = case.clone();
                    *a.progress.slot[a.shard].lock().unwrap() = Some(Box::new(move || serde_json::to_value(&copy).unwrap_or(Value::Null)));
                }
                if let Ok(v) = std::env::var("RQV_DEBUG_SHARD") {
                    if v == a.shard.to_string() {
                        println!("shard {} case {} fp {:016x}", a.shard, idx.get(), fp_of(&case));
                        if let Ok(d) = std::env::var("RQV_DEBUG_DUMP") {
                            if d == idx.get().to_string() {
                                println!("{}", serde_json::to_string(&case).unwrap());
                            }
                        }
                    }
                }
            }
            idx.set(idx.get() + 1);
            let j = judge(&*self.check, &case, a.known);
            if !shrinking {
                a.progress.end(a.shard);
            }
            match j {
                Judged::Ok(o) => {
                    if !shrinking {
                        stats.borrow_mut().record(&o, || serde_json::to_value(&case).unwrap_or(Value::Null), want_samples);
                    }
                    Ok(())
                }
                Judged::Fail(m) => {
                    if a.mode == Mode::PanicOnly {
                        if !shrinking {
                            stats.borrow_mut().evals += 1;
                        }
                        return Ok(());
                    }
                    // while shrinking a panic, an ordinary failure is a different failure: not accepted
                    if shrinking {
                        let f = failed.take();
                        let is_violation = matches!(f, Some(FailKind::Violation));
                        failed.set(f);
                        if !is_violation {
                            return Ok(());
                        }
                    } else {
                        stats.borrow_mut().evals += 1;
                        failed.set(Some(FailKind::Violation));
                    }
                    Err(TestCaseError::fail(m))
                }
                Judged::KnownPanic(key) => {
                    if !shrinking {
                        let mut s = stats.borrow_mut();
                        s.evals += 1;
                        s.excluded_known += 1;
                        s.known_panic_keys.insert(key);
                    }
                    Ok(())
                }
                Judged::LibPanic(p) => {
                    if a.mode == Mode::Normal {
                        if !shrinking {
                            let mut s = stats.borrow_mut();
                            s.evals += 1;
                            s.discarded_panics += 1;
                            if s.first_panic.is_none() {
                                s.first_panic = Some((p, serde_json::to_value(&case).unwrap_or(Value::Null)));
                            }
                        }
                        return Ok(());
                    }
                    if shrinking {
                        let f = failed.take();
                        let same = matches!(&f, Some(FailKind::LibPanic(q)) if q.file == p.file && q.line == p.line);
                        failed.set(f);
                        if !same {
                            return Ok(());
                        }
                    } else {
                        stats.borrow_mut().evals += 1;
                        failed.set(Some(FailKind::LibPanic(p.clone())));
                    }
                    Err(TestCaseError::fail(p.describe()))
                }
                Judged::HarnessPanic(p) => {
                    if shrinking {
                        let f = failed.take();
                        let same = matches!(&f, Some(FailKind::HarnessPanic(_)));
                        failed.set(f);
                        if !same {
                            return Ok(());
                        }
                    } else {
                        failed.set(Some(FailKind::HarnessPanic(p.clone())));
                    }
                    Err(TestCaseError::fail(format!("HARNESS {}", p.describe())))
                }
            }
        });
        let mut st = stats.into_inner();
        match res {
            Ok(()) => {}
            Err(TestError::Fail(reason, case)) => {
                let kind = failed.take().unwrap_or(FailKind::Violation);
                st.failure = Some(Failure {
                    part: self.name.to_string(),
                    message: reason.message().to_string(),
                    case: serde_json::to_value(&case).unwrap_or(Value::Null),
                    kind,
                    shard: a.shard,
                });
            }
            Err(TestError::Abort(reason)) => {
                st.failure = Some(Failure {
                    part: self.name.to_string(),
                    message: format!("HARNESS generator aborted: {}", reason.message()),
                    case: Value::Null,
                    kind: FailKind::HarnessPanic(PanicInfo { file: "harness/src".into(), line: 0, msg: reason.message().to_string(), bt: String::new() }),
                    shard: a.shard,
                });
            }
        }
        st
    }

    fn replay(&self, case: &Value, _mode: Mode) -> Result<Result<Outcome, String>, PanicInfo> {
        let c: C = match serde_json::from_value(case.clone()) {
            Ok(c) => c,
            Err(e) => return Ok(Err(format!("HARNESS replay case does not deserialize: {}", e))),
        };
        guarded(|| (self.check)(&c))
    }

    fn regenerate(&self, seed: u64, shard: usize, index: u64) -> Option<Value> {
        let cfg = Config { cases: (index + 1) as u32, failure_persistence: None, rng_seed: RngSeed::Fixed(derive_seed(seed, self.name, shard)), ..Config::default() };
        let mut runner = TestRunner::new(cfg);
        let strat = (self.strat)();
        let mut out = None;
        for i in 0..=index {
            let t = strat.new_tree(&mut runner).ok()?;
            if i == index {
                out = serde_json::to_value(&t.current()).ok();
            }
        }
        out
    }
}

// ---------------------------------------------------------------------------
// exhaustive enumeration part: index space 0..n, split across shards

pub struct EnumPart<C> {
    pub name: &'static str,
    pub n_quick: u64,
    pub n_thorough: u64,
    /// decode an index into a case (quick and thorough spaces differ)
    pub decode: Box<dyn Fn(Tier, u64) -> C + Send + Sync>,
    pub check: Box<dyn Fn(&C) -> CheckResult + Send + Sync>,
    pub tier: Mutex<Tier>,
}

pub fn enum_part<C, D, F>(name: &'static str, n_quick: u64, n_thorough: u64, decode: D, check: F) -> Box<dyn PartDyn>
where
    C: Clone + Debug + Serialize + DeserializeOwned + Send + Sync + 'static,
    D: Fn(Tier, u64) -> C + Send + Sync + 'static,
    F: Fn(&C) -> CheckResult + Send + Sync + 'static,
{
    Box::new(EnumPart { name, n_quick, n_thorough, decode: Box::new(decode), check: Box::new(check), tier: Mutex::new(Tier::Quick) })
}

impl<C> PartDyn for EnumPart<C>
where
    C: Clone + Debug + Serialize + DeserializeOwned + Send + Sync + 'static,
{
    fn name(&self) -> &'static str {
        self.name
    }
    fn cases(&self, tier: Tier) -> u64 {
        *self.tier.lock().unwrap() = tier;
        match tier {
            Tier::Quick => self.n_quick,
            Tier::Thorough => self.n_thorough,
        }
    }
    fn in_c07_domain(&self) -> bool {
        false
    }
    fn run_shard(&self, a: &ShardArgs) -> Stats {
        let tier = *self.tier.lock().unwrap();
        let total = match tier {
            Tier::Quick => self.n_quick,
            Tier::Thorough => self.n_thorough,
        };
        let mut st = Stats::default();
        st.exhaustive = true;
        let mut i = a.shard as u64;
        while i < total {
            let case = (self.decode)(tier, i);
            a.progress.begin(a.shard, i);
            let j = judge(&*self.check, &case, a.known);
            a.progress.end(a.shard);
            match j {
                Judged::Ok(o) => st.record(&o, || serde_json::to_value(&case).unwrap_or(Value::Null), a.shard == 0),
                Judged::KnownPanic(k) => {
                    st.evals += 1;
                    st.excluded_known += 1;
                    st.known_panic_keys.insert(k);
                }
                Judged::Fail(m) => {
                    st.evals += 1;
                    st.failure = Some(Failure { part: self.name.into(), message: m, case: serde_json::to_value(&case).unwrap_or(Value::Null), kind: FailKind::Violation, shard: a.shard });
                    break;
                }
                Judged::LibPanic(p) => {
                    st.evals += 1;
                    // an out-of-bounds panic *is* a violation for the enumerated (memory-safety style) parts
                    st.failure = Some(Failure { part: self.name.into(), message: p.describe(), case: serde_json::to_value(&case).unwrap_or(Value::Null), kind: FailKind::LibPanic(p), shard: a.shard });
                    break;
                }
                Judged::HarnessPanic(p) => {
                    st.failure = Some(Failure { part: self.name.into(), message: format!("HARNESS {}", p.describe()), case: serde_json::to_value(&case).unwrap_or(Value::Null), kind: FailKind::HarnessPanic(p), shard: a.shard });
                    break;
                }
            }
            i += a.nshards as u64;
        }
        st
    }
    fn replay(&self, case: &Value, _mode: Mode) -> Result<Result<Outcome, String>, PanicInfo> {
        let c: C = match serde_json::from_value(case.clone()) {
            Ok(c) => c,
            Err(e) => return Ok(Err(format!("HARNESS replay case does not deserialize: {}", e))),
        };
        guarded(|| (self.check)(&c))
    }
}

// ---------------------------------------------------------------------------
// property = parts + texts

pub struct Property {
    pub id: &'static str,
    pub rule: &'static str,
    pub assumptions: Vec<&'static str>,
    pub parts: Vec<Box<dyn PartDyn>>,
    /// (part, class, minimum fraction of that part's evaluations carrying the class label): generator health
    pub min_class_fraction: Vec<(&'static str, &'static str, f64)>,
    /// library panics are violations for this property (C07)
    pub panic_is_violation: bool,
}

pub struct RunReport {
    pub health: Vec<String>,
    pub stats: Stats,
    pub per_part: Vec<(String, u64, usize)>,
    pub wall_s: f64,
}

/// Run every part of a property over NSHARDS threads.  Stops launching further parts after a failure.
pub fn run_parts(prop_id: &str, parts: &[&Box<dyn PartDyn>], tier: Tier, seed: u64, mode: Mode, known: &[KnownFinding], scale: f64, health_req: &[(&'static str, &'static str, f64)]) -> RunReport {
    let t0 = Instant::now();
    let mut health = Vec::new();
    let mut total = Stats::default();
    let mut per_part = Vec::new();
    for p in parts {
        let n = ((p.cases(tier) as f64) * scale).ceil() as u64;
        let progress = Progress::new();
        let done = Arc::new(std::sync::atomic::AtomicBool::new(false));
        let mut part_stats = Stats::default();
        std::thread::scope(|s| {
            // watchdog: a case running > WATCHDOG_S seconds makes the run inconclusive (exit 2)
            let pr = progress.clone();
            let dn = done.clone();
            let pname = p.name().to_string();
            let prop_id = prop_id.to_string();
            s.spawn(move || {
                let limit_ms: u64 = std::env::var("RQV_WATCHDOG_S").ok().and_then(|v| v.parse().ok()).unwrap_or(60) * 1000;
                // (memory: a case that allocates without bound is stopped long before the time limit; the resident
                // set of a normal run stays below 2 GB)
                let mem_limit: u64 = std::env::var("RQV_MEM_LIMIT_GB").ok().and_then(|v| v.parse().ok()).unwrap_or(12) << 30;
                while !dn.load(Ordering::Relaxed) {
                    std::thread::sleep(std::time::Duration::from_millis(250));
                    let now = pr.t0.elapsed().as_millis() as u64;
                    let rss = std::fs::read_to_string("/proc/self/statm").ok().and_then(|t| t.split_whitespace().nth(1).and_then(|v| v.parse::<u64>().ok())).unwrap_or(0) * 4096;
                    // over the memory limit: blame the case that has been running longest
                    let oldest = if rss > mem_limit {
                        pr.cur.iter().enumerate().filter_map(|(sh, (_, start))| { let st = start.load(Ordering::Relaxed); if st != u64::MAX && now > st { Some((now - st, sh)) } else { None } }).max().map(|(_, sh)| sh)
                    } else {
                        None
                    };
                    if rss > mem_limit {
                        println!("WATCHDOG resident memory {} MB exceeds the limit", rss >> 20);
                    }
                    for (sh, (idx, start)) in pr.cur.iter().enumerate() {
                        let st = start.load(Ordering::Relaxed);
                        if (st != u64::MAX && now > st && now - st > limit_ms) || oldest == Some(sh) {
                            let index = idx.load(Ordering::Relaxed);
                            println!("WATCHDOG part={} shard={} case_index={} running for {} ms: inconclusive", pname, sh, index, now - st);
                            let stuck = pr.slot[sh].lock().ok().and_then(|g| g.as_ref().map(|f| f()));
                            if let Some(case) = stuck {
                                let root = std::env::var("VERIF_ROOT").unwrap_or_else(|_| "/verif".to_string());
                                let _ = std::fs::create_dir_all(format!("{}/work/violations", root));
                                let path = format!("{}/work/violations/hang-{}-seed{}.json", root, pname, seed);
                                let v = json!({"property": prop_id, "part": pname, "seed": seed, "message": "watchdog: case did not finish", "case": case});
                                let _ = std::fs::write(&path, serde_json::to_string_pretty(&v).unwrap());
                                println!("stuck case saved to {}", path);
                                println!("HANG-CANDIDATE replay={}", path);
                            }
                            std::process::exit(3);
                        }
                    }
                }
            });
            let handles: Vec<_> = (0..NSHARDS)
                .map(|sh| {
                    let progress = &progress;
                    let is_enum = p.cases(tier) > 0 && false;
                    let _ = is_enum;
                    let per = n / NSHARDS as u64 + if (sh as u64) < n % NSHARDS as u64 { 1 } else { 0 };
                    std::thread::Builder::new()
                        .stack_size(64 << 20)
                        .spawn_scoped(s, move || {
                            let a = ShardArgs { shard: sh, nshards: NSHARDS, seed, ncases: per, mode, known, progress };
                            p.run_shard(&a)
                        })
                        .unwrap()
                })
                .collect();
            for h in handles {
                match h.join() {
                    Ok(st) => part_stats.merge(st),
                    Err(_) => {
                        println!("HARNESS shard thread died in part {}", p.name());
                        std::process::exit(2);
                    }
                }
            }
            done.store(true, Ordering::Relaxed);
        });
        per_part.push((p.name().to_string(), part_stats.evals, part_stats.nontrivial.len()));
        let failed = part_stats.failure.is_some();
        if !failed && part_stats.evals > 0 {
            for (pn, class, min) in health_req.iter().filter(|h| h.0 == p.name()) {
                let n = *part_stats.classes.get(class).unwrap_or(&0);
                let frac = n as f64 / part_stats.evals as f64;
                if frac < *min {
                    health.push(format!("part {} class {:?} has fraction {:.4} < required {:.4}", pn, class, frac, min));
                }
            }
        }
        total.merge(part_stats);
        if failed {
            break;
        }
    }
    RunReport { health, stats: total, per_part, wall_s: t0.elapsed().as_secs_f64() }
}

pub fn write_replay(verif_root: &str, prop: &str, f: &Failure, seed: u64, tier: Tier) -> String {
    let dir = format!("{}/work/violations", verif_root);
    let _ = std::fs::create_dir_all(&dir);
    let path = format!("{}/{}-{}-seed{}-{}.json", dir, prop, f.part, seed, tier.name());
    let v = json!({
        "property": prop,
        "part": f.part,
        "seed": seed,
        "tier": tier.name(),
        "message": f.message,
        "case": f.case,
    });
    std::fs::write(&path, serde_json::to_string_pretty(&v).unwrap()).expect("write replay");
    path
}

pub fn write_evidence(verif_root: &str, prop: &Property, tier: Tier, seed: u64, rep: &RunReport, violations: i64, extra: Value) {
    let dir = format!("{}/evidence", verif_root);
    let _ = std::fs::create_dir_all(&dir);
    let file_stem = std::env::var("RQV_EVIDENCE_NAME").unwrap_or_else(|_| prop.id.to_string());
    let classes: BTreeMap<String, u64> = rep.stats.classes.iter().map(|(k, v)| (k.to_string(), *v)).collect();
    let parts: Vec<Value> = rep.per_part.iter().map(|(n, e, nt)| json!({"part": n, "evaluations": e, "distinct_nontrivial": nt})).collect();
    let mut samples = rep.stats.samples.clone();
    if samples.is_empty() {
        samples.push(json!("no non-trivial sample recorded in shard 0"));
    }
    let mut coverage = json!({
        "evaluations": rep.stats.evals,
        "distinct_nontrivial": rep.stats.nontrivial.len(),
        "rule": prop.rule,
        "samples": samples,
        "classes": classes,
        "parts": parts,
        "judgements": rep.stats.judged,
        "undecided_judgements": rep.stats.undecided,
        "excluded_known": rep.stats.excluded_known,
        "discarded_panics": rep.stats.discarded_panics,
        "shards": NSHARDS,
    });
    if rep.stats.exhaustive {
        coverage["exhaustive"] = json!(true);
        coverage["exhaustive_note"] = json!("exhaustive applies to the enumerated part(s) only; see parts[]");
    }
    if let Value::Object(m) = extra {
        for (k, v) in m {
            coverage[k] = v;
        }
    }
    let ev = json!({
        "property_id": prop.id,
        "tier": tier.name(),
        "seed": seed,
        "level": "exploration",
        "coverage": coverage,
        "assumptions": prop.assumptions,
        "wall_s": rep.wall_s,
        "violations": violations,
    });
    std::fs::write(format!("{}/{}.json", dir, file_stem), serde_json::to_string_pretty(&ev).unwrap()).expect("write evidence");
}
