//! Shared proptest strategies (boundary-biased), used by all property modules.

use crate::runner::Ctx;
use crate::scene::*;
use proptest::prelude::*;
use proptest::strategy::BoxedStrategy;

/// boundary-biased byte
pub fn byte_b() -> BoxedStrategy<u8> {
    prop_oneof![
        3 => prop::sample::select(vec![0u8, 255, 1, 254, 127, 128]),
        2 => any::<u8>(),
    ]
    .boxed()
}

/// premultiplied ARGB word, alpha boundary-biased
pub fn px_premul() -> BoxedStrategy<u32> {
    (byte_b(), any::<u8>(), any::<u8>(), any::<u8>(), 0u8..4)
        .prop_map(|(a, r, g, b, k)| {
            let a = a as u32;
            // k: 0 => arbitrary <= a, 1 => all channels == a, 2 => zero colour, 3 => mix
            let f = |c: u8, sel: u8| -> u32 {
                match sel {
                    1 => a,
                    2 => 0,
                    _ => (c as u32 * a + 127) / 255,
                }
            };
            match k {
                3 => pack(a, f(r, 1), f(g, 0), f(b, 2)),
                _ => pack(a, f(r, k), f(g, k), f(b, k)),
            }
        })
        .boxed()
}

/// opaque premultiplied pixel
pub fn px_opaque() -> BoxedStrategy<u32> {
    any::<u32>().prop_map(|v| v | 0xff00_0000).boxed()
}

/// unpremultiplied ARGB colour (gradient stops)
pub fn color_unpremul() -> BoxedStrategy<u32> {
    (byte_b(), any::<u8>(), any::<u8>(), any::<u8>()).prop_map(|(a, r, g, b)| pack(a as u32, r as u32, g as u32, b as u32)).boxed()
}

/// global alpha / opacity inside [0,1]
pub fn alpha_f() -> BoxedStrategy<f32> {
    prop_oneof![
        3 => Just(1.0f32),
        1 => Just(0.0f32),
        1 => Just(0.5f32),
        1 => prop::sample::select(vec![1.0f32 / 255.0, 254.0 / 255.0, 0.498, 0.502, 0.25]),
        3 => (0u32..=1000).prop_map(|v| v as f32 / 1000.0),
    ]
    .boxed()
}

pub fn blend_any() -> BoxedStrategy<u8> {
    (0u8..28).boxed()
}

/// blend mode with SrcOver at modest weight, the "erasing" modes emphasised
pub fn blend_biased() -> BoxedStrategy<u8> {
    prop_oneof![
        2 => Just(SRC_OVER),
        3 => prop::sample::select(vec![1u8, 2, 5, 6, 7, 10, 0, 4, 8, 9, 11]),
        4 => 0u8..28,
    ]
    .boxed()
}

pub fn opts_any() -> BoxedStrategy<Opts> {
    (blend_biased(), alpha_f(), prop::bool::weighted(0.8)).prop_map(|(blend, alpha, aa)| Opts { blend, alpha: Fl(alpha), aa }).boxed()
}

pub fn pixels(n: usize, kind: u8) -> BoxedStrategy<Vec<u32>> {
    match kind {
        0 => prop::collection::vec(px_premul(), n..=n).boxed(),
        1 => prop::collection::vec(px_opaque(), n..=n).boxed(),
        _ => Just(vec![0u32; n]).boxed(),
    }
}

/// non-empty initial contents: random premultiplied, opaque, or a mix; never all zero unless n == 0
pub fn init_pixels(w: i32, h: i32) -> BoxedStrategy<Vec<u32>> {
    let n = (w * h) as usize;
    if n == 0 {
        return Just(vec![]).boxed();
    }
    prop_oneof![
        3 => prop::collection::vec(px_premul(), n..=n),
        2 => prop::collection::vec(px_opaque(), n..=n),
        1 => px_premul().prop_map(move |p| vec![p | 0x0100_0000 | if p >> 24 == 0 { 0x4000_0000 } else { 0 }; n]).prop_map(|v| v.into_iter().map(fix_premul).collect()),
    ]
    .prop_map(|mut v: Vec<u32>| {
        if v.iter().all(|p| *p == 0) {
            v[0] = 0xff80_4020;
        }
        v
    })
    .boxed()
}

pub fn fix_premul(p: u32) -> u32 {
    let c = ch(p);
    pack(c[0], c[1].min(c[0]), c[2].min(c[0]), c[3].min(c[0]))
}

pub fn image_spec(maxw: i32, maxh: i32) -> BoxedStrategy<ImageSpec> {
    (1..=maxw, 1..=maxh)
        .prop_flat_map(|(w, h)| {
            let n = (w * h) as usize;
            prop_oneof![
                3 => prop::collection::vec(px_premul(), n..=n),
                1 => prop::collection::vec(px_opaque(), n..=n),
            ]
            .prop_map(move |data| ImageSpec { w, h, data })
        })
        .boxed()
}

// ---------------------------------------------------------------------------
// transforms

pub fn classify_xf(x: &Xf) -> &'static str {
    let det = xf_det(x);
    if det == 0.0 {
        return "xf:singular";
    }
    if x[0] == 1.0 && x[1] == 0.0 && x[2] == 0.0 && x[3] == 1.0 {
        if x[4] == 0.0 && x[5] == 0.0 {
            return "xf:identity";
        }
        if x[4].fract() == 0.0 && x[5].fract() == 0.0 {
            return "xf:int-translate";
        }
        return "xf:frac-translate";
    }
    if x[1] == 0.0 && x[2] == 0.0 {
        if x[0] == x[3] {
            return "xf:uniform-scale";
        }
        return "xf:nonuniform-scale";
    }
    if x[0] == 1.0 && x[3] == 1.0 && (x[1] == 0.0) != (x[2] == 0.0) {
        return "xf:unit-diagonal-shear";
    }
    let ortho = (x[0] as f64 * x[2] as f64 + x[1] as f64 * x[3] as f64).abs() < 1e-4;
    let n1 = ((x[0] as f64).powi(2) + (x[1] as f64).powi(2)).sqrt();
    let n2 = ((x[2] as f64).powi(2) + (x[3] as f64).powi(2)).sqrt();
    if ortho && (n1 - n2).abs() < 1e-4 * n1.max(n2) {
        if det < 0.0 {
            return "xf:mirror-rot";
        }
        return "xf:rotation";
    }
    "xf:general"
}

fn rot(deg: f32) -> (f32, f32) {
    let r = (deg as f64).to_radians();
    (r.cos() as f32, r.sin() as f32)
}

/// invertible transforms of all classes, translation within [-tmax, tmax]
pub fn xf_invertible(tmax: f32) -> BoxedStrategy<Xf> {
    let tr = move || prop_oneof![Just(0.0f32), (-8i32..=8).prop_map(|v| v as f32), (-tmax..tmax)];
    let ent = || prop_oneof![2 => Just(0.0f32), 3 => Just(1.0f32), 1 => Just(-1.0f32), 3 => (-2.0f32..2.0)];
    prop_oneof![
        2 => Just(IDENT),
        2 => ((-8i32..=8), (-8i32..=8)).prop_map(|(x, y)| [1., 0., 0., 1., x as f32, y as f32]),
        2 => (tr(), tr()).prop_map(|(x, y)| [1., 0., 0., 1., x, y]),
        2 => (0.0f32..360.0, 0.3f32..3.0, tr(), tr()).prop_map(|(a, s, x, y)| { let (c, sn) = rot(a); [c * s, sn * s, -sn * s, c * s, x, y] }),
        1 => (prop::sample::select(vec![90.0f32, 180.0, 270.0]), tr(), tr()).prop_map(|(a, x, y)| { let (c, sn) = rot(a); [c.round(), sn.round(), -sn.round(), c.round(), x, y] }),
        2 => (0.3f32..3.0, 0.3f32..3.0, tr(), tr()).prop_map(|(sx, sy, x, y)| [sx, 0., 0., sy, x, y]),
        1 => (prop::sample::select(vec![-1.0f32, 1.0]), prop::sample::select(vec![-1.0f32, 1.0]), tr(), tr()).prop_map(|(sx, sy, x, y)| [sx, 0., 0., sy, x, y]),
        2 => (0.0f32..360.0, 0.4f32..2.0, 0.4f32..2.0, -1.0f32..1.0, tr(), tr()).prop_map(|(a, sx, sy, sh, x, y)| {
            // rotation * scale * shear
            let (c, sn) = rot(a);
            let m = [sx, sh * sy, 0.0, sy];
            [m[0] * c + m[1] * -sn, m[0] * sn + m[1] * c, m[2] * c + m[3] * -sn, m[2] * sn + m[3] * c, x, y]
        }),
        // lattice: every linear entry independently 0, 1, -1 or arbitrary, so that each exact coincidence a
        // special-cased fast path could test for (unit diagonal with one shear term, swapped axes, ...) occurs
        // (kept as well conditioned as the other classes: |det| >= 0.05)
        2 => (ent(), ent(), ent(), ent(), tr(), tr()).prop_map(|(a, b, c, d, x, y)| [a, b, c, d, x, y]).prop_filter("conditioned", |x| xf_det(x).abs() >= 0.05),
        1 => (any::<bool>(), -2.0f32..2.0, tr(), tr()).prop_map(|(up, k, x, y)| if up { [1., k, 0., 1., x, y] } else { [1., 0., k, 1., x, y] }),
    ]
    .prop_filter("invertible", |x| xf_det(x).abs() > 1e-3)
    .boxed()
}

pub fn xf_singular() -> BoxedStrategy<Xf> {
    prop_oneof![
        Just([0.0f32, 0., 0., 0., 0., 0.]),
        (-4.0f32..4.0, -4.0f32..4.0).prop_map(|(x, y)| [0., 0., 0., 0., x, y]),
        (0.5f32..2.0, -4.0f32..4.0).prop_map(|(s, x)| [s, 0., 0., 0., x, 0.]),
        (0.5f32..2.0).prop_map(|s| [0., 0., 0., s, 0., 0.]),
        (0.5f32..2.0, 0.5f32..2.0).prop_map(|(a, b)| [a, b, 2.0 * a, 2.0 * b, 1., 1.]),
        // rank-one and rank-zero matrices made of exact 0/1 entries
        (prop::sample::select(vec![[1.0f32, 1., 1., 1.], [0., 1., 0., 1.], [1., 0., 1., 0.], [0., 1., 0., 0.], [0., 0., 1., 0.], [1., 0., 0., 0.], [0., 0., 0., 1.], [1., -1., -1., 1.]]), -4i32..=4, -4i32..=4)
            .prop_map(|(m, x, y)| [m[0], m[1], m[2], m[3], x as f32, y as f32]),
    ]
    .boxed()
}

// ---------------------------------------------------------------------------
// sources

pub fn stops(ctx: &Ctx) -> BoxedStrategy<Vec<Stop>> {
    let _ = ctx;
    // 1..=5 stops at strictly increasing positions, gaps >= 0.02
    (1usize..=5)
        .prop_flat_map(|n| (prop::collection::vec(0.02f32..1.0, n..=n), prop::collection::vec(color_unpremul(), n..=n), prop::bool::ANY))
        .prop_map(|(gaps, cols, pin)| {
            let total: f32 = gaps.iter().sum::<f32>() + 0.02;
            let scale = if total > 1.0 || pin { 1.0 / total } else { 1.0 };
            let mut pos = 0.0f32;
            let n = gaps.len();
            let mut out = Vec::new();
            for (i, (g, c)) in gaps.iter().zip(cols).enumerate() {
                if i == 0 {
                    pos = if pin { 0.0 } else { (g * scale - 0.02).max(0.0) };
                } else {
                    pos += (g * scale).max(0.02);
                }
                let p = if pin && i == n - 1 { 1.0 } else { pos.min(1.0) };
                out.push(Stop { pos: p, color: c });
            }
            // flat segments: in a quarter of the gradients with three or more stops, stops 0/1 (and 2/3) share a colour
            // (hold, then ramp; hard stripes), which independent random colours never do
            if n >= 3 && (out[0].color ^ out[n - 1].color) & 3 == 0 {
                out[1].color = out[0].color;
                if n >= 4 {
                    out[3].color = out[2].color;
                }
            }
            out
        })
        .boxed()
}

pub fn solid_src() -> BoxedStrategy<SrcSpec> {
    px_premul().prop_map(SrcSpec::Solid).boxed()
}

pub fn image_src(maxdim: i32) -> BoxedStrategy<SrcSpec> {
    (image_spec(maxdim, maxdim), any::<bool>(), any::<bool>(), prop_oneof![3 => xf_invertible(6.0), 1 => Just(IDENT)])
        .prop_map(|(img, repeat, nearest, xf)| SrcSpec::Image { img, repeat, nearest, xf })
        .boxed()
}

/// gradient sources in C07/C12's domain for a surface of extent `ext`
pub fn gradient_src(ctx: &Ctx, ext: f32) -> BoxedStrategy<SrcSpec> {
    let c = move || (-4.0f32..ext + 4.0);
    let sweep_free = !ctx.excluded("C12-sweep-start-angle");
    prop_oneof![
        (stops(ctx), 0u8..3, c(), c(), c(), c()).prop_map(|(stops, spread, x0, y0, x1, y1)| {
            // extent >= 1px
            let (dx, dy) = (x1 - x0, y1 - y0);
            let (x1, y1) = if (dx * dx + dy * dy).sqrt() < 1.0 { (x0 + 3.0, y0 + 1.0) } else { (x1, y1) };
            // one in four is exactly horizontal or exactly vertical, in either direction
            let axis = (x0.to_bits() >> 3) & 7;
            let (x1, y1) = match axis {
                0 if (x1 - x0).abs() >= 1.0 => (x1, y0),
                1 if (y1 - y0).abs() >= 1.0 => (x0, y1),
                _ => (x1, y1),
            };
            SrcSpec::Linear { stops, spread, x0, y0, x1, y1 }
        }),
        (stops(ctx), 0u8..3, c(), c(), 1.0f32..ext + 4.0).prop_map(|(stops, spread, cx, cy, r)| SrcSpec::Radial { stops, spread, cx, cy, r }),
        (stops(ctx), 0u8..3, c(), c(), 2.0f32..ext + 4.0, 0.0f32..1.0, 0.0f32..1.0, 0.0f32..360.0, (0u8..4, 0u8..6)).prop_map(|(stops, spread, x2, y2, r2, fr, fd, ang, (sel_r, sel_d))| {
            // circle 1 strictly inside circle 2. Exact coincidences that random floats never produce are
            // built in: a first circle of radius exactly 0 (focal point), exactly equal centres, and centres
            // sharing exactly one coordinate
            let r1 = if sel_r == 0 { 0.0 } else { (r2 - 1.0) * fr * 0.9 };
            let dmax = (r2 - r1 - 0.5).max(0.0) * 0.95;
            let d = dmax * fd;
            let (cs, sn) = rot(ang);
            let (x1, y1) = match sel_d {
                0 => (x2, y2),
                1 => (x2 + if cs < 0.0 { -d } else { d }, y2),
                2 => (x2, y2 + if sn < 0.0 { -d } else { d }),
                _ => (x2 + d * cs, y2 + d * sn),
            };
            SrcSpec::TwoCircle { stops, spread, x1, y1, r1, x2, y2, r2 }
        }),
        // (the span may exceed one turn: the angle of a pixel stays in [0,360), so only the first part of the stops
        // is then reached)
        (stops(ctx), 0u8..3, c(), c(), 0.0f32..300.0, prop_oneof![6 => 10.0f32..360.0, 1 => Just(360.0f32), 2 => 360.0f32..1080.0]).prop_map(move |(stops, spread, cx, cy, a0, da)| {
            let a0 = if sweep_free { a0 } else { 0.0 };
            SrcSpec::Sweep { stops, spread, cx, cy, a0, a1: a0 + da }
        }),
    ]
    .boxed()
}

/// a linear gradient whose start and end point coincide exactly (constant colour: the first stop); outside
/// C12's domain (extent >= 1 px) but a legal source everywhere else
pub fn degenerate_gradient_src(ctx: &Ctx, ext: f32) -> BoxedStrategy<SrcSpec> {
    let c = move || -4.0f32..ext + 4.0;
    prop_oneof![
        (stops(ctx), 0u8..3, c(), c()).prop_map(|(stops, spread, x, y)| SrcSpec::Linear { stops, spread, x0: x, y0: y, x1: x, y1: y }),
        // a two-circle gradient whose circles are not nested: outside the cone they span there is no circle
        // through a point and the source is transparent there, whatever the stops (also outside C12's domain)
        (stops(ctx), 0u8..3, c(), c(), 0.5f32..4.0, 1.0f32..ext.max(2.0), 0.0f32..360.0, 0.5f32..5.0, any::<bool>()).prop_map(|(mut stops, spread, x1, y1, r1, gap, ang, r2, opaque)| {
            if opaque {
                for s in stops.iter_mut() {
                    s.color |= 0xff00_0000;
                }
            }
            let d = (r1 - r2).abs() + gap;
            let (cs, sn) = rot(ang);
            SrcSpec::TwoCircle { stops, spread, x1, y1, r1, x2: x1 + d * cs, y2: y1 + d * sn, r2 }
        }),
    ]
    .boxed()
}

pub fn any_src(ctx: &Ctx, ext: f32) -> BoxedStrategy<SrcSpec> {
    prop_oneof![
        10 => solid_src(),
        6 => image_src(5),
        6 => gradient_src(ctx, ext),
        2 => degenerate_gradient_src(ctx, ext),
    ]
    .boxed()
}

// ---------------------------------------------------------------------------
// geometry

/// coordinate on the quarter grid near a surface of extent `ext` pixels (value in quarter units)
pub fn q_near(ext: i32) -> BoxedStrategy<i32> {
    prop_oneof![
        4 => -24..=(4 * ext + 24),
        2 => (-2..=(ext + 2)).prop_map(|v| v * 4),
    ]
    .boxed()
}

/// general float coordinate around a surface
pub fn coord(ext: f32) -> BoxedStrategy<f32> {
    prop_oneof![
        5 => -4.0f32..ext + 4.0,
        2 => (-2i32..=(ext as i32 + 2)).prop_map(|v| v as f32),
        1 => (-8i32..=(4 * ext as i32 + 8)).prop_map(|v| v as f32 / 4.0),
        1 => prop::sample::select(vec![0.0f32, 0.5, -0.0]),
    ]
    .boxed()
}

/// integer rectangle (x1,y1,x2,y2) of every relation to a w x h surface
pub fn int_rect(w: i32, h: i32) -> BoxedStrategy<(i32, i32, i32, i32)> {
    let xs = move || -3..=(w + 3);
    let ys = move || -3..=(h + 3);
    prop_oneof![
        6 => (xs(), ys(), xs(), ys()).prop_map(|(a, b, c, d)| (a.min(c), b.min(d), a.max(c), b.max(d))),
        1 => (xs(), ys(), xs(), ys()),                       // possibly inverted
        1 => Just((0, 0, w, h)),
        1 => Just((-5, -5, w + 5, h + 5)),
        1 => (xs(), ys()).prop_map(|(a, b)| (a, b, a, b)),   // empty
    ]
    .boxed()
}

/// simple polygon-ish path with float coordinates (lines only)
pub fn poly_path(ext: f32) -> BoxedStrategy<PathSpec> {
    (prop::collection::vec((coord(ext), coord(ext)), 3..=6), any::<bool>(), any::<bool>(), prop::bool::weighted(0.25))
        .prop_map(|(pts, close, evenodd, back)| {
            let mut ops = vec![POp::M(pts[0].0, pts[0].1)];
            for p in &pts[1..] {
                ops.push(POp::L(p.0, p.1));
            }
            if close {
                // a quarter of the closed polygons return to their first point explicitly before closing
                if back {
                    ops.push(POp::L(pts[0].0, pts[0].1));
                }
                ops.push(POp::Z);
            }
            PathSpec { ops, evenodd }
        })
        .boxed()
}

/// path mixing lines, quads and cubics
pub fn curvy_path(ext: f32) -> BoxedStrategy<PathSpec> {
    let c = move || coord(ext);
    let seg = prop_oneof![
        3 => (c(), c()).prop_map(|(x, y)| POp::L(x, y)),
        2 => (c(), c(), c(), c()).prop_map(|(a, b, x, y)| POp::Q(a, b, x, y)),
        2 => (c(), c(), c(), c(), c(), c()).prop_map(|(a, b, cc, d, x, y)| POp::C(a, b, cc, d, x, y)),
    ];
    (c(), c(), prop::collection::vec(seg, 2..=5), any::<bool>(), any::<bool>())
        .prop_map(|(x, y, segs, close, evenodd)| {
            let mut ops = vec![POp::M(x, y)];
            ops.extend(segs);
            if close {
                ops.push(POp::Z);
            }
            PathSpec { ops, evenodd }
        })
        .boxed()
}

pub fn mask_spec(maxw: i32, maxh: i32) -> BoxedStrategy<MaskSpec> {
    (1..=maxw, 1..=maxh)
        .prop_flat_map(|(w, h)| prop::collection::vec(byte_b(), (w * h) as usize..=(w * h) as usize).prop_map(move |data| MaskSpec { w, h, data }))
        .boxed()
}

/// quarter-grid polygon near a w x h surface (1-2 closed subpaths, 3-6 vertices), for exact coverage via raster4x4;
/// `aligned` makes every vertex a whole pixel so that coverages are 0/255 only
pub fn grid_poly(w: i32, h: i32, aligned: bool) -> BoxedStrategy<PathSpec> {
    let step = if aligned { 4 } else { 1 };
    let vx = move || (-8 / step..=(4 * w + 8) / step).prop_map(move |v| (v * step) as f32 / 4.0);
    let vy = move || (-8 / step..=(4 * h + 8) / step).prop_map(move |v| (v * step) as f32 / 4.0);
    let general = prop::collection::vec((vx(), vy()), 3..=6).prop_map(|pts| {
        let mut ops = vec![POp::M(pts[0].0, pts[0].1)];
        for p in &pts[1..] {
            ops.push(POp::L(p.0, p.1));
        }
        ops.push(POp::Z);
        ops
    });
    let rect = (vx(), vy(), vx(), vy()).prop_map(|(a, b, c, d)| vec![POp::M(a, b), POp::L(c, b), POp::L(c, d), POp::L(a, d), POp::Z]);
    let sub = if aligned { prop_oneof![1 => general, 3 => rect].boxed() } else { prop_oneof![3 => general, 1 => rect].boxed() };
    (prop::collection::vec(sub, 1..=2), any::<bool>()).prop_map(|(subs, evenodd)| PathSpec { ops: subs.concat(), evenodd }).boxed()
}

/// clip path made of 1-2 pixel-aligned rectangles: its antialiased coverage is exactly 0 or 255 everywhere
pub fn pixel_rects_path(w: i32, h: i32) -> BoxedStrategy<PathSpec> {
    let r = move || (-2..=w + 2, -2..=h + 2, -2..=w + 2, -2..=h + 2).prop_map(|(a, b, c, d)| {
        let (a, b, c, d) = (a as f32, b as f32, c as f32, d as f32);
        vec![POp::M(a, b), POp::L(c, b), POp::L(c, d), POp::L(a, d), POp::Z]
    });
    (prop::collection::vec(r(), 1..=2), any::<bool>()).prop_map(|(subs, evenodd)| PathSpec { ops: subs.concat(), evenodd }).boxed()
}
