use rqv::runner::*;
use serde_json::{json, Value};
use std::collections::HashSet;

fn verif_root() -> String {
    std::env::var("VERIF_ROOT").unwrap_or_else(|_| "/verif".to_string())
}

fn usage() -> ! {
    eprintln!("usage: rqv run <id> <quick|thorough> | rqv replay <file> | rqv list");
    std::process::exit(2)
}

/// run one stored case under a watchdog: a replay that does not return within RQV_WATCHDOG_S (60 s) makes the
/// process exit 3 with a HANG-CANDIDATE line naming the file (the check script confirms hangs for C07)
fn replay_watched(prop: &Property, part_name: &str, case: &Value, known: &[KnownFinding], file: &str) -> Result<Outcome, String> {
    let limit: u64 = std::env::var("RQV_WATCHDOG_S").ok().and_then(|v| v.parse().ok()).unwrap_or(60);
    let done = std::sync::Arc::new(std::sync::atomic::AtomicBool::new(false));
    let d2 = done.clone();
    let f2 = file.to_string();
    let pid = prop.id.to_string();
    std::thread::spawn(move || {
        let t0 = std::time::Instant::now();
        while !d2.load(std::sync::atomic::Ordering::Relaxed) {
            std::thread::sleep(std::time::Duration::from_millis(200));
            if t0.elapsed().as_secs() >= limit && !d2.load(std::sync::atomic::Ordering::Relaxed) {
                println!("WATCHDOG property={} committed replay {} running for {} s: inconclusive", pid, f2, limit);
                println!("HANG-CANDIDATE replay={}", f2);
                std::process::exit(3);
            }
        }
    });
    let r = replay_one(prop, part_name, case, known);
    done.store(true, std::sync::atomic::Ordering::Relaxed);
    r
}

fn replay_one(prop: &Property, part_name: &str, case: &Value, known: &[KnownFinding]) -> Result<Outcome, String> {
    let Some(p) = prop.parts.iter().find(|p| p.name() == part_name) else {
        return Err(format!("HARNESS unknown part {}", part_name));
    };
    match p.replay(case, Mode::Normal) {
        Ok(r) => r,
        Err(pi) => {
            if pi.in_harness() {
                Err(format!("HARNESS {}", pi.describe()))
            } else if let Some(k) = known.iter().find(|k| k.matches_panic(&pi)) {
                Err(format!("KNOWNPANIC {} {}", k.key, pi.describe()))
            } else if prop.panic_is_violation {
                Err(pi.describe())
            } else {
                // a library panic in a semantic property's replay: still a failure of that replay
                Err(pi.describe())
            }
        }
    }
}

fn load_replay(path: &str) -> Value {
    let s = std::fs::read_to_string(path).unwrap_or_else(|e| {
        eprintln!("cannot read {}: {}", path, e);
        std::process::exit(2)
    });
    serde_json::from_str(&s).unwrap_or_else(|e| {
        eprintln!("cannot parse {}: {}", path, e);
        std::process::exit(2)
    })
}

fn main() {
    install_panic_hook();
    let args: Vec<String> = std::env::args().collect();
    if args.len() < 2 {
        usage();
    }
    let root = verif_root();
    let seed: u64 = std::env::var("VERIF_SEED").ok().and_then(|s| s.parse().ok()).unwrap_or(0);
    let known = load_known_findings(&root);
    let excl: HashSet<String> = known.iter().filter(|k| k.is_open()).map(|k| k.key.clone()).collect();

    match args[1].as_str() {
        "list" => {
            let ctx = Ctx { tier: Tier::Quick, seed, excl };
            for p in rqv::props::all(&ctx) {
                println!("{} parts: {}", p.id, p.parts.iter().map(|x| x.name()).collect::<Vec<_>>().join(","));
            }
        }
        "replay" => {
            if args.len() < 3 {
                usage();
            }
            let v = load_replay(&args[2]);
            let id = v["property"].as_str().unwrap_or("?").to_string();
            // replays are strict: no known-finding exclusions
            let ctx = Ctx { tier: Tier::Quick, seed, excl: HashSet::new() };
            let props = rqv::props::all(&ctx);
            let Some(prop) = props.iter().find(|p| p.id == id) else {
                eprintln!("unknown property {}", id);
                std::process::exit(2)
            };
            match replay_one(prop, v["part"].as_str().unwrap_or("?"), &v["case"], &[]) {
                Ok(_) => {
                    println!("replay passes: property={} file={}", id, args[2]);
                }
                Err(m) if m.starts_with("HARNESS") => {
                    println!("{}", m);
                    std::process::exit(2)
                }
                Err(m) => {
                    println!("failure: {}", m);
                    println!("VIOLATION property={} replay={}", id, args[2]);
                    std::process::exit(1)
                }
            }
        }
        "dump" => {
            // debugging aid: run the ops of a tree-shaped case one by one and print which pixels each changes
            let v = load_replay(&args[2]);
            let c = &v["case"];
            let w = c["w"].as_i64().unwrap() as i32;
            let h = c["h"].as_i64().unwrap() as i32;
            let init: Vec<u32> = serde_json::from_value(c["init"].clone()).unwrap_or_default();
            let nodes: Vec<rqv::tree::Node> = serde_json::from_value(c["nodes"].clone()).expect("case.nodes");
            let mut dt = rqv::scene::new_target(w, h, &init);
            for (k, op) in rqv::tree::flat(&nodes).iter().enumerate() {
                let before = dt.get_data().to_vec();
                if std::env::var("RQV_TRACE").is_ok() {
                    println!("about to run #{} {}", k, serde_json::to_string(op).unwrap());
                }
                let t0 = std::time::Instant::now();
                rqv::scene::apply(&mut dt, op);
                if t0.elapsed().as_millis() > 200 {
                    println!("SLOW #{} took {} ms: {}", k, t0.elapsed().as_millis(), serde_json::to_string(op).unwrap());
                }
                let after = dt.get_data();
                let ch: Vec<String> = (0..before.len()).filter(|i| before[*i] != after[*i]).take(12).map(|i| format!("({},{}) {:#010x}->{:#010x}", i as i32 % w, i as i32 / w, before[i], after[i])).collect();
                println!("#{} {} idle={} changed: {}", k, op.kind(), dt.verif_rasterizer_idle(), ch.join(" "));
            }
        }
        "run" => {
            if args.len() < 4 {
                usage();
            }
            let id = args[2].clone();
            let tier = match args[3].as_str() {
                "quick" => Tier::Quick,
                "thorough" => Tier::Thorough,
                _ => usage(),
            };
            let ctx = Ctx { tier, seed, excl };
            let mut props = rqv::props::all(&ctx);
            let Some(pos) = props.iter().position(|p| p.id == id) else {
                eprintln!("unknown property {}", id);
                std::process::exit(2)
            };
            let prop = props.remove(pos);
            let others = props;
            // the same property without known-finding exclusions: used to replay witnesses strictly
            let strict_ctx = Ctx { tier, seed, excl: HashSet::new() };
            let strict = rqv::props::all(&strict_ctx).into_iter().find(|p| p.id == id).unwrap();
            std::process::exit(run_property(&root, &prop, &strict, &others, tier, seed, &known));
        }
        _ => usage(),
    }
}

fn run_property(root: &str, prop: &Property, strict: &Property, others: &[Property], tier: Tier, seed: u64, known: &[KnownFinding]) -> i32 {
    let t_start = std::time::Instant::now();
    // 1. regression replays (witnesses of fixed findings, shrunk seeded mutants, hand-written boundary cases)
    let dir = format!("{}/replays/{}", root, prop.id);
    let mut replayed = 0u64;
    let mut files: Vec<String> = std::fs::read_dir(&dir)
        .map(|rd| rd.filter_map(|e| e.ok()).map(|e| e.path().to_string_lossy().to_string()).filter(|p| p.ends_with(".json")).collect())
        .unwrap_or_default();
    files.sort();
    // witnesses of findings (open in this or in the other build profile) are not ordinary regressions
    let open_witnesses: HashSet<String> = known.iter().filter(|k| k.status == "finding").filter_map(|k| k.witness.clone()).map(|w| format!("{}/{}", root, w)).collect();
    for f in &files {
        if open_witnesses.contains(f) {
            continue;
        }
        let v = load_replay(f);
        replayed += 1;
        match replay_watched(prop, v["part"].as_str().unwrap_or("?"), &v["case"], known, f) {
            Ok(_) => {}
            Err(m) if m.starts_with("HARNESS") => {
                println!("{} (replay {})", m, f);
                return 2;
            }
            Err(m) if m.starts_with("KNOWNPANIC") => {
                println!("note: replay {} hits a listed panic: {}", f, m);
            }
            Err(m) => {
                println!("failure: {}", m);
                println!("VIOLATION property={} replay={}", prop.id, f);
                write_min_evidence(root, prop, tier, seed, 1, t_start.elapsed().as_secs_f64(), &v);
                return 1;
            }
        }
    }
    // 2. open known findings: the witness must still fail with its own signature
    let mut known_lines = Vec::new();
    for k in known.iter().filter(|k| k.is_open() && k.property == prop.id) {
        if let Some(w) = &k.witness {
            let path = format!("{}/{}", root, w);
            let v = load_replay(&path);
            let sig = k.msg_contains.clone().unwrap_or_default();
            match replay_watched(strict, v["part"].as_str().unwrap_or("?"), &v["case"], &[], &path) {
                Ok(_) => println!("note: known finding {} no longer reproduces on this tree (witness {} passes)", k.key, w),
                Err(m) if m.starts_with("HARNESS") => {
                    println!("{} (witness {})", m, w);
                    return 2;
                }
                Err(m) => {
                    if !sig.is_empty() && m.contains(&sig) {
                        known_lines.push(format!("KNOWN-FINDING: property={} {} [{}]", prop.id, k.what, k.key));
                    } else {
                        println!("failure: {} (witness of {} fails with a different signature; expected to contain {:?})", m, k.key, sig);
                        println!("VIOLATION property={} replay={}", prop.id, path);
                        write_min_evidence(root, prop, tier, seed, 1, t_start.elapsed().as_secs_f64(), &v);
                        return 1;
                    }
                }
            }
        }
    }
    // 3. generated search
    let mode = if prop.panic_is_violation { Mode::PanicIsViolation } else { Mode::Normal };
    // RQV_ONLY_PARTS / RQV_SCALE: run a subset of the parts at a fraction of the budget (used for the
    // second, unchecked-profile pass of C18)
    let only: Option<Vec<String>> = std::env::var("RQV_ONLY_PARTS").ok().map(|v| v.split(',').map(|s| s.to_string()).collect());
    let scale: f64 = std::env::var("RQV_SCALE").ok().and_then(|v| v.parse().ok()).unwrap_or(1.0);
    let parts: Vec<&Box<dyn PartDyn>> = prop.parts.iter().filter(|p| only.as_ref().map_or(true, |o| o.iter().any(|n| n == p.name()))).collect();
    let health: Vec<(&'static str, &'static str, f64)> = if scale < 1.0 { vec![] } else { prop.min_class_fraction.clone() };
    let mut rep = run_parts(prop.id, &parts, tier, seed, mode, known, scale, &health);
    let mut sweep_note = json!(null);
    if prop.id == "C07" && rep.stats.failure.is_none() {
        // C07 also sweeps every other property's generator with the oracle "no library panic"
        let mut swept = Vec::new();
        for o in others {
            let ps: Vec<&Box<dyn PartDyn>> = o.parts.iter().filter(|p| p.in_c07_domain()).collect();
            if ps.is_empty() {
                continue;
            }
            let scale = if tier == Tier::Quick { 0.1 } else { 0.05 };
            let mut r = run_parts(o.id, &ps, tier, seed ^ 0xc07, Mode::PanicOnly, known, scale, &[]);
            swept.push(json!({"generator_of": o.id, "evaluations": r.stats.evals}));
            let fail = r.stats.failure.take();
            rep.stats.evals += r.stats.evals;
            rep.stats.excluded_known += r.stats.excluded_known;
            rep.stats.known_panic_keys.extend(r.stats.known_panic_keys.drain());
            rep.wall_s += r.wall_s;
            if let Some(mut f) = fail {
                f.part = format!("{}:{}", o.id, f.part);
                rep.stats.failure = Some(f);
                break;
            }
        }
        sweep_note = json!(swept);
    }
    for key in &rep.stats.known_panic_keys {
        if let Some(k) = known.iter().find(|k| &k.key == key) {
            let line = format!("KNOWN-FINDING: property={} {} [{}]", k.property, k.what, k.key);
            if k.property == prop.id && !known_lines.contains(&line) {
                known_lines.push(line);
            }
        }
    }
    let extra = json!({"replayed_regressions": replayed, "c07_sweep_of_other_generators": sweep_note, "known_findings_reported": known_lines.len()});
    if let Some(f) = &rep.stats.failure {
        match &f.kind {
            FailKind::HarnessPanic(p) => {
                println!("HARNESS failure in part {}: {} / {}", f.part, f.message, p.describe());
                println!("case: {}", f.case);
                return 2;
            }
            _ => {
                let path = write_replay(root, prop.id, f, seed, tier);
                write_evidence(root, prop, tier, seed, &rep, 1, extra);
                for l in &known_lines {
                    println!("{}", l);
                }
                println!("failure in part {} (shard {}): {}", f.part, f.shard, f.message);
                if let FailKind::LibPanic(p) = &f.kind {
                    if std::env::var("RQV_BT").is_ok() {
                        println!("{}", p.bt);
                    }
                }
                println!("VIOLATION property={} replay={}", prop.id, path);
                return 1;
            }
        }
    }
    // 4. generator health
    let mut health_fail = false;
    if rep.stats.evals > 0 {
        for h in &rep.health {
            println!("GENERATOR-HEALTH property={} {}: inconclusive", prop.id, h);
            health_fail = true;
        }
        if rep.stats.discarded_panics as f64 > 0.05 * rep.stats.evals as f64 {
            println!("GENERATOR-HEALTH property={} {} of {} cases discarded by library panics: inconclusive", prop.id, rep.stats.discarded_panics, rep.stats.evals);
            health_fail = true;
        }
    }
    if let Some((p, case)) = &rep.stats.first_panic {
        println!("note: {} case(s) could not be judged because the library panicked ({}); that is C07's business. first such case: {}", rep.stats.discarded_panics, p.describe(), case);
    }
    write_evidence(root, prop, tier, seed, &rep, 0, extra);
    for l in &known_lines {
        println!("{}", l);
    }
    println!(
        "{} {} seed={} evaluations={} distinct_nontrivial={} judgements={} undecided={} excluded_known={} discarded_panics={} wall={:.1}s",
        prop.id,
        tier.name(),
        seed,
        rep.stats.evals,
        rep.stats.nontrivial.len(),
        rep.stats.judged,
        rep.stats.undecided,
        rep.stats.excluded_known,
        rep.stats.discarded_panics,
        rep.wall_s
    );
    if health_fail {
        return 2;
    }
    0
}

fn write_min_evidence(root: &str, prop: &Property, tier: Tier, seed: u64, violations: i64, wall: f64, case: &Value) {
    let ev = json!({
        "property_id": prop.id, "tier": tier.name(), "seed": seed, "level": "exploration",
        "coverage": {"evaluations": 1, "distinct_nontrivial": 0, "rule": prop.rule, "samples": [case], "note": "stopped at a failing committed replay before the generated search"},
        "assumptions": prop.assumptions, "wall_s": wall, "violations": violations
    });
    let _ = std::fs::create_dir_all(format!("{}/evidence", root));
    let _ = std::fs::write(format!("{}/evidence/{}.json", root, prop.id), serde_json::to_string_pretty(&ev).unwrap());
}
