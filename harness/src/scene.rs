//! Scene language: plain data describing raqote calls, serialisable to JSON
//! (replay files), plus the interpreter that applies it to a real DrawTarget.

use raqote::*;
use serde::{Deserialize, Deserializer, Serialize, Serializer};

/// f32 that survives JSON even when NaN / infinite (C07 feeds those on purpose).
#[derive(Clone, Copy, Debug, PartialEq)]
pub struct Fl(pub f32);

impl Serialize for Fl {
    fn serialize<S: Serializer>(&self, s: S) -> Result<S::Ok, S::Error> {
        if self.0.is_finite() {
            s.serialize_f64(self.0 as f64)
        } else if self.0.is_nan() {
            s.serialize_str("nan")
        } else if self.0 > 0.0 {
            s.serialize_str("inf")
        } else {
            s.serialize_str("-inf")
        }
    }
}

impl<'de> Deserialize<'de> for Fl {
    fn deserialize<D: Deserializer<'de>>(d: D) -> Result<Self, D::Error> {
        let v = serde_json::Value::deserialize(d)?;
        match v {
            serde_json::Value::Number(n) => Ok(Fl(n.as_f64().unwrap_or(0.0) as f32)),
            serde_json::Value::String(s) => Ok(Fl(match s.as_str() {
                "nan" => f32::NAN,
                "inf" => f32::INFINITY,
                "-inf" => f32::NEG_INFINITY,
                _ => return Err(serde::de::Error::custom("bad float string")),
            })),
            _ => Err(serde::de::Error::custom("bad float")),
        }
    }
}

/// m11 m12 m21 m22 m31 m32 (euclid row-vector convention: x' = x*m11 + y*m21 + m31)
pub type Xf = [f32; 6];
pub const IDENT: Xf = [1., 0., 0., 1., 0., 0.];

pub fn to_transform(x: &Xf) -> Transform {
    Transform::new(x[0], x[1], x[2], x[3], x[4], x[5])
}
pub fn from_transform(t: &Transform) -> Xf {
    [t.m11, t.m12, t.m21, t.m22, t.m31, t.m32]
}
pub fn xf_apply(x: &Xf, p: (f64, f64)) -> (f64, f64) {
    (
        p.0 * x[0] as f64 + p.1 * x[2] as f64 + x[4] as f64,
        p.0 * x[1] as f64 + p.1 * x[3] as f64 + x[5] as f64,
    )
}
pub fn xf_det(x: &Xf) -> f64 {
    x[0] as f64 * x[3] as f64 - x[1] as f64 * x[2] as f64
}
/// f64 inverse of an f32 matrix, None if singular
pub fn xf_inverse64(x: &Xf) -> Option<[f64; 6]> {
    let det = xf_det(x);
    if det == 0.0 || !det.is_finite() {
        return None;
    }
    let (a, b, c, d, e, f) = (x[0] as f64, x[1] as f64, x[2] as f64, x[3] as f64, x[4] as f64, x[5] as f64);
    Some([d / det, -b / det, -c / det, a / det, (c * f - d * e) / det, (b * e - a * f) / det])
}
pub fn xf_apply64(x: &[f64; 6], p: (f64, f64)) -> (f64, f64) {
    (p.0 * x[0] + p.1 * x[2] + x[4], p.0 * x[1] + p.1 * x[3] + x[5])
}

#[derive(Clone, Copy, Debug, PartialEq, Serialize, Deserialize)]
pub enum POp {
    M(f32, f32),
    L(f32, f32),
    Q(f32, f32, f32, f32),
    C(f32, f32, f32, f32, f32, f32),
    Z,
}

#[derive(Clone, Debug, PartialEq, Serialize, Deserialize)]
pub struct PathSpec {
    pub ops: Vec<POp>,
    pub evenodd: bool,
}

impl PathSpec {
    pub fn build(&self) -> Path {
        let mut pb = PathBuilder::new();
        for op in &self.ops {
            match *op {
                POp::M(x, y) => pb.move_to(x, y),
                POp::L(x, y) => pb.line_to(x, y),
                POp::Q(a, b, c, d) => pb.quad_to(a, b, c, d),
                POp::C(a, b, c, d, e, f) => pb.cubic_to(a, b, c, d, e, f),
                POp::Z => pb.close(),
            }
        }
        let mut p = pb.finish();
        p.winding = if self.evenodd { Winding::EvenOdd } else { Winding::NonZero };
        p
    }
    pub fn rect(x: f32, y: f32, w: f32, h: f32) -> PathSpec {
        PathSpec { ops: vec![POp::M(x, y), POp::L(x + w, y), POp::L(x + w, y + h), POp::L(x, y + h), POp::Z], evenodd: false }
    }
    pub fn from_path(p: &Path) -> PathSpec {
        PathSpec {
            ops: p
                .ops
                .iter()
                .map(|o| match *o {
                    PathOp::MoveTo(p) => POp::M(p.x, p.y),
                    PathOp::LineTo(p) => POp::L(p.x, p.y),
                    PathOp::QuadTo(c, p) => POp::Q(c.x, c.y, p.x, p.y),
                    PathOp::CubicTo(a, b, p) => POp::C(a.x, a.y, b.x, b.y, p.x, p.y),
                    PathOp::Close => POp::Z,
                })
                .collect(),
            evenodd: p.winding == Winding::EvenOdd,
        }
    }
    pub fn has_curves(&self) -> bool {
        self.ops.iter().any(|o| matches!(o, POp::Q(..) | POp::C(..)))
    }
    pub fn points(&self) -> Vec<(f32, f32)> {
        let mut v = Vec::new();
        for op in &self.ops {
            match *op {
                POp::M(x, y) | POp::L(x, y) => v.push((x, y)),
                POp::Q(a, b, c, d) => {
                    v.push((a, b));
                    v.push((c, d))
                }
                POp::C(a, b, c, d, e, f) => {
                    v.push((a, b));
                    v.push((c, d));
                    v.push((e, f))
                }
                POp::Z => {}
            }
        }
        v
    }
}

pub const BLEND_MODES: [BlendMode; 28] = [
    BlendMode::Dst,
    BlendMode::Src,
    BlendMode::Clear,
    BlendMode::SrcOver,
    BlendMode::DstOver,
    BlendMode::SrcIn,
    BlendMode::DstIn,
    BlendMode::SrcOut,
    BlendMode::DstOut,
    BlendMode::SrcAtop,
    BlendMode::DstAtop,
    BlendMode::Xor,
    BlendMode::Add,
    BlendMode::Screen,
    BlendMode::Overlay,
    BlendMode::Darken,
    BlendMode::Lighten,
    BlendMode::ColorDodge,
    BlendMode::ColorBurn,
    BlendMode::HardLight,
    BlendMode::SoftLight,
    BlendMode::Difference,
    BlendMode::Exclusion,
    BlendMode::Multiply,
    BlendMode::Hue,
    BlendMode::Saturation,
    BlendMode::Color,
    BlendMode::Luminosity,
];
pub const SRC_OVER: u8 = 3;
pub const MODE_SRC: u8 = 1;
pub const MODE_CLEAR: u8 = 2;
pub const MODE_DST: u8 = 0;

pub fn blend_name(i: u8) -> &'static str {
    [
        "Dst", "Src", "Clear", "SrcOver", "DstOver", "SrcIn", "DstIn", "SrcOut", "DstOut", "SrcAtop", "DstAtop", "Xor", "Add", "Screen", "Overlay", "Darken", "Lighten", "ColorDodge", "ColorBurn",
        "HardLight", "SoftLight", "Difference", "Exclusion", "Multiply", "Hue", "Saturation", "Color", "Luminosity",
    ][i as usize]
}

/// reference per-pixel blend from sw_composite's public formula library
pub fn blend_px(mode: u8, src: u32, dst: u32) -> u32 {
    use sw_composite::blend::*;
    match mode {
        0 => Dst::blend(src, dst),
        1 => Src::blend(src, dst),
        2 => Clear::blend(src, dst),
        3 => SrcOver::blend(src, dst),
        4 => DstOver::blend(src, dst),
        5 => SrcIn::blend(src, dst),
        6 => DstIn::blend(src, dst),
        7 => SrcOut::blend(src, dst),
        8 => DstOut::blend(src, dst),
        9 => SrcAtop::blend(src, dst),
        10 => DstAtop::blend(src, dst),
        11 => Xor::blend(src, dst),
        12 => Add::blend(src, dst),
        13 => Screen::blend(src, dst),
        14 => Overlay::blend(src, dst),
        15 => Darken::blend(src, dst),
        16 => Lighten::blend(src, dst),
        17 => ColorDodge::blend(src, dst),
        18 => ColorBurn::blend(src, dst),
        19 => HardLight::blend(src, dst),
        20 => SoftLight::blend(src, dst),
        21 => Difference::blend(src, dst),
        22 => Exclusion::blend(src, dst),
        23 => Multiply::blend(src, dst),
        24 => Hue::blend(src, dst),
        25 => Saturation::blend(src, dst),
        26 => Color::blend(src, dst),
        27 => Luminosity::blend(src, dst),
        _ => unreachable!(),
    }
}

#[derive(Clone, Debug, PartialEq, Serialize, Deserialize)]
pub struct ImageSpec {
    pub w: i32,
    pub h: i32,
    pub data: Vec<u32>,
}

#[derive(Clone, Debug, PartialEq, Serialize, Deserialize)]
pub struct Stop {
    pub pos: f32,
    /// unpremultiplied ARGB
    pub color: u32,
}

#[derive(Clone, Debug, PartialEq, Serialize, Deserialize)]
pub enum SrcSpec {
    /// premultiplied ARGB word
    Solid(u32),
    Image { img: ImageSpec, repeat: bool, nearest: bool, xf: Xf },
    Linear { stops: Vec<Stop>, spread: u8, x0: f32, y0: f32, x1: f32, y1: f32 },
    Radial { stops: Vec<Stop>, spread: u8, cx: f32, cy: f32, r: f32 },
    TwoCircle { stops: Vec<Stop>, spread: u8, x1: f32, y1: f32, r1: f32, x2: f32, y2: f32, r2: f32 },
    Sweep { stops: Vec<Stop>, spread: u8, cx: f32, cy: f32, a0: f32, a1: f32 },
}

pub fn spread_of(i: u8) -> Spread {
    match i {
        0 => Spread::Pad,
        1 => Spread::Repeat,
        _ => Spread::Reflect,
    }
}

pub fn gradient_of(stops: &[Stop]) -> Gradient {
    Gradient {
        stops: stops
            .iter()
            .map(|s| GradientStop { position: s.pos, color: Color::new((s.color >> 24) as u8, (s.color >> 16) as u8, (s.color >> 8) as u8, s.color as u8) })
            .collect(),
    }
}

pub fn solid_of(c: u32) -> SolidSource {
    SolidSource { a: (c >> 24) as u8, r: (c >> 16) as u8, g: (c >> 8) as u8, b: c as u8 }
}

impl SrcSpec {
    pub fn with<R>(&self, f: impl FnOnce(&Source) -> R) -> R {
        match self {
            SrcSpec::Solid(c) => f(&Source::Solid(solid_of(*c))),
            SrcSpec::Image { img, repeat, nearest, xf } => {
                let image = Image { width: img.w, height: img.h, data: &img.data };
                f(&Source::Image(
                    image,
                    if *repeat { ExtendMode::Repeat } else { ExtendMode::Pad },
                    if *nearest { FilterMode::Nearest } else { FilterMode::Bilinear },
                    to_transform(xf),
                ))
            }
            SrcSpec::Linear { stops, spread, x0, y0, x1, y1 } => f(&Source::new_linear_gradient(gradient_of(stops), Point::new(*x0, *y0), Point::new(*x1, *y1), spread_of(*spread))),
            SrcSpec::Radial { stops, spread, cx, cy, r } => f(&Source::new_radial_gradient(gradient_of(stops), Point::new(*cx, *cy), *r, spread_of(*spread))),
            SrcSpec::TwoCircle { stops, spread, x1, y1, r1, x2, y2, r2 } => {
                f(&Source::new_two_circle_radial_gradient(gradient_of(stops), Point::new(*x1, *y1), *r1, Point::new(*x2, *y2), *r2, spread_of(*spread)))
            }
            SrcSpec::Sweep { stops, spread, cx, cy, a0, a1 } => f(&Source::new_sweep_gradient(gradient_of(stops), Point::new(*cx, *cy), *a0, *a1, spread_of(*spread))),
        }
    }
    pub fn kind(&self) -> &'static str {
        match self {
            SrcSpec::Solid(_) => "src:solid",
            SrcSpec::Image { .. } => "src:image",
            SrcSpec::Linear { .. } => "src:linear",
            SrcSpec::Radial { .. } => "src:radial",
            SrcSpec::TwoCircle { .. } => "src:twocircle",
            SrcSpec::Sweep { .. } => "src:sweep",
        }
    }
    pub fn is_solid(&self) -> bool {
        matches!(self, SrcSpec::Solid(_))
    }
    pub fn is_gradient(&self) -> bool {
        !matches!(self, SrcSpec::Solid(_) | SrcSpec::Image { .. })
    }
}

#[derive(Clone, Debug, PartialEq, Serialize, Deserialize)]
pub struct Opts {
    pub blend: u8,
    pub alpha: Fl,
    pub aa: bool,
}

impl Opts {
    pub fn default_() -> Opts {
        Opts { blend: SRC_OVER, alpha: Fl(1.0), aa: true }
    }
    pub fn build(&self) -> DrawOptions {
        DrawOptions { blend_mode: BLEND_MODES[self.blend as usize], alpha: self.alpha.0, antialias: if self.aa { AntialiasMode::Gray } else { AntialiasMode::None } }
    }
}

#[derive(Clone, Debug, PartialEq, Serialize, Deserialize)]
pub struct StyleSpec {
    pub width: Fl,
    /// 0 butt 1 round 2 square
    pub cap: u8,
    /// 0 miter 1 round 2 bevel
    pub join: u8,
    pub miter: Fl,
    pub dash: Vec<Fl>,
    pub offset: Fl,
}

impl StyleSpec {
    pub fn build(&self) -> StrokeStyle {
        StrokeStyle {
            width: self.width.0,
            cap: [LineCap::Butt, LineCap::Round, LineCap::Square][self.cap as usize % 3],
            join: [LineJoin::Miter, LineJoin::Round, LineJoin::Bevel][self.join as usize % 3],
            miter_limit: self.miter.0,
            dash_array: self.dash.iter().map(|d| d.0).collect(),
            dash_offset: self.offset.0,
        }
    }
}

#[derive(Clone, Debug, PartialEq, Serialize, Deserialize)]
pub struct MaskSpec {
    pub w: i32,
    pub h: i32,
    pub data: Vec<u8>,
}

#[derive(Clone, Debug, PartialEq, Serialize, Deserialize)]
pub struct SurfSpec {
    pub w: i32,
    pub h: i32,
    pub data: Vec<u32>,
}

#[derive(Clone, Debug, PartialEq, Serialize, Deserialize)]
pub enum Op {
    SetXf(Xf),
    PushClipRect(i32, i32, i32, i32),
    PushClipPath(PathSpec),
    PopClip,
    PushLayer(Fl, u8),
    PopLayer,
    Fill(PathSpec, SrcSpec, Opts),
    FillRect(f32, f32, f32, f32, SrcSpec, Opts),
    Stroke(PathSpec, SrcSpec, StyleSpec, Opts),
    Clear(u32),
    Mask(SrcSpec, i32, i32, MaskSpec),
    DrawImageAt(f32, f32, ImageSpec, Opts),
    DrawImageSized(f32, f32, f32, f32, ImageSpec, Opts),
    /// src surface, src_rect (x1,y1,x2,y2), dst point
    CopySurface(SurfSpec, [i32; 4], [i32; 2]),
    BlendSurface(SurfSpec, [i32; 4], [i32; 2], u8),
    BlendSurfaceAlpha(SurfSpec, [i32; 4], [i32; 2], Fl),
}

impl Op {
    pub fn kind(&self) -> &'static str {
        match self {
            Op::SetXf(_) => "op:set_transform",
            Op::PushClipRect(..) => "op:push_clip_rect",
            Op::PushClipPath(_) => "op:push_clip",
            Op::PopClip => "op:pop_clip",
            Op::PushLayer(..) => "op:push_layer",
            Op::PopLayer => "op:pop_layer",
            Op::Fill(..) => "op:fill",
            Op::FillRect(..) => "op:fill_rect",
            Op::Stroke(..) => "op:stroke",
            Op::Clear(_) => "op:clear",
            Op::Mask(..) => "op:mask",
            Op::DrawImageAt(..) => "op:draw_image_at",
            Op::DrawImageSized(..) => "op:draw_image_with_size_at",
            Op::CopySurface(..) => "op:copy_surface",
            Op::BlendSurface(..) => "op:blend_surface",
            Op::BlendSurfaceAlpha(..) => "op:blend_surface_with_alpha",
        }
    }
    /// does this op draw (as opposed to changing state)?
    pub fn is_draw(&self) -> bool {
        !matches!(self, Op::SetXf(_) | Op::PushClipRect(..) | Op::PushClipPath(_) | Op::PopClip | Op::PushLayer(..))
    }
}

#[derive(Clone, Debug, PartialEq, Serialize, Deserialize)]
pub struct Scene {
    pub w: i32,
    pub h: i32,
    /// initial contents (premultiplied); empty = transparent
    pub init: Vec<u32>,
    pub ops: Vec<Op>,
}

pub fn irect(x1: i32, y1: i32, x2: i32, y2: i32) -> IntRect {
    IntRect::new(IntPoint::new(x1, y1), IntPoint::new(x2, y2))
}

/// A blank w x h target, built one of the ways a caller can build it (picked by the size, so that a case is
/// reproducible): DrawTarget::new, from_vec of a zero vector, from_vec of an empty vector (which the library
/// extends with zeros), from_backing of an owned vector.  All of them are the same surface by C19.
pub fn blank_target(w: i32, h: i32) -> DrawTarget {
    let n = (w.max(0) as usize) * (h.max(0) as usize);
    match (w * 31 + h * 17).rem_euclid(5) {
        0 => DrawTarget::from_vec(w, h, vec![0; n]),
        1 => DrawTarget::from_vec(w, h, Vec::new()),
        2 => DrawTarget::from_backing(w, h, vec![0u32; n]),
        _ => DrawTarget::new(w, h),
    }
}

/// A w x h target with the given contents, built through from_vec, from_backing, or new() plus a copy
pub fn new_target(w: i32, h: i32, init: &[u32]) -> DrawTarget {
    if init.is_empty() {
        blank_target(w, h)
    } else {
        assert_eq!(init.len(), (w * h) as usize);
        match (w * 13 + h * 7 + (init[0] >> 24) as i32).rem_euclid(4) {
            0 => DrawTarget::from_backing(w, h, init.to_vec()),
            1 => {
                let mut dt = DrawTarget::new(w, h);
                dt.get_data_mut().copy_from_slice(init);
                dt
            }
            _ => DrawTarget::from_vec(w, h, init.to_vec()),
        }
    }
}

/// A short sequence of calls that leaves pixels, transform, clip stack and layer stack exactly as they were (C10):
/// single-call checks run one of these just before the call under test, so that anything the library caches or
/// forgets to reset between calls (path cursor, rasteriser edges, inverse transform, recycled buffers) shows up in
/// the property whose call it corrupts. `sel` picks the sequence; two thirds of the values pick none.
pub fn harmless_prelude(dt: &mut DrawTarget, sel: u32) {
    let (w, h) = (dt.width(), dt.height());
    let t = *dt.get_transform();
    let white = Source::Solid(SolidSource { r: 255, g: 255, b: 255, a: 255 });
    match sel % 24 {
        0 => {
            dt.push_layer(1.0);
            dt.pop_layer();
        }
        1 => {
            dt.push_clip_rect(irect(0, 0, w, h));
            dt.pop_clip();
        }
        2 => {
            // a clip path that ends away from where it started, without close
            let mut pb = PathBuilder::new();
            pb.move_to(w as f32 * 0.25, h as f32 * 0.75);
            pb.line_to(w as f32 * 0.9, h as f32 * 0.5);
            pb.quad_to(w as f32, 0.0, w as f32 * 0.5, 1.0);
            dt.set_transform(&Transform::identity());
            dt.push_clip(&pb.finish());
            dt.pop_clip();
            dt.set_transform(&t);
        }
        3 => {
            // a fill wholly above the surface
            let mut pb = PathBuilder::new();
            pb.move_to(1.0, -30.0);
            pb.line_to(w as f32 + 3.0, -20.0);
            pb.line_to(2.0, -10.0);
            dt.set_transform(&Transform::identity());
            dt.fill(&pb.finish(), &white, &DrawOptions::new());
            dt.set_transform(&t);
        }
        4 => {
            // a stroke of width zero across the surface
            let mut pb = PathBuilder::new();
            pb.move_to(0.0, 0.0);
            pb.line_to(w as f32, h as f32);
            let st = StrokeStyle { width: 0.0, ..StrokeStyle::default() };
            dt.set_transform(&Transform::identity());
            dt.stroke(&pb.finish(), &white, &st, &DrawOptions::new());
            dt.set_transform(&t);
        }
        5 => {
            // a draw under a non-invertible transform, then the transform set back
            dt.set_transform(&Transform::scale(0.0, 1.0));
            dt.fill_rect(0.0, 0.0, w as f32, h as f32, &white, &DrawOptions::new());
            dt.set_transform(&t);
        }
        6 => {
            // a transparent layer group with content under a clip
            dt.push_clip_rect(irect(1, 1, w - 1, h - 1));
            dt.push_layer(0.0);
            dt.set_transform(&Transform::identity());
            dt.fill_rect(0.0, 0.0, w as f32, h as f32, &white, &DrawOptions::new());
            dt.set_transform(&t);
            dt.pop_layer();
            dt.pop_clip();
        }
        8 => {
            // a clear under an empty clip (the clipped, transform-swapping route of clear; nothing can change)
            dt.push_clip_rect(irect(0, 0, 0, 0));
            dt.clear(SolidSource { r: 255, g: 255, b: 255, a: 255 });
            dt.pop_clip();
        }
        7 => {
            // an empty surface transfer
            let src = DrawTarget::new(2, 2);
            dt.copy_surface(&src, irect(0, 0, 0, 0), IntPoint::new(0, 0));
        }
        _ => {}
    }
}

pub fn apply(dt: &mut DrawTarget, op: &Op) {
    match op {
        Op::SetXf(x) => dt.set_transform(&to_transform(x)),
        Op::PushClipRect(a, b, c, d) => dt.push_clip_rect(irect(*a, *b, *c, *d)),
        Op::PushClipPath(p) => dt.push_clip(&p.build()),
        Op::PopClip => dt.pop_clip(),
        Op::PushLayer(o, b) => dt.push_layer_with_blend(o.0, BLEND_MODES[*b as usize]),
        Op::PopLayer => dt.pop_layer(),
        Op::Fill(p, s, o) => s.with(|src| dt.fill(&p.build(), src, &o.build())),
        Op::FillRect(x, y, w, h, s, o) => s.with(|src| dt.fill_rect(*x, *y, *w, *h, src, &o.build())),
        Op::Stroke(p, s, st, o) => s.with(|src| dt.stroke(&p.build(), src, &st.build(), &o.build())),
        Op::Clear(c) => dt.clear(solid_of(*c)),
        Op::Mask(s, x, y, m) => {
            let mask = Mask { width: m.w, height: m.h, data: m.data.clone() };
            s.with(|src| dt.mask(src, *x, *y, &mask))
        }
        Op::DrawImageAt(x, y, img, o) => {
            let image = Image { width: img.w, height: img.h, data: &img.data };
            dt.draw_image_at(*x, *y, &image, &o.build())
        }
        Op::DrawImageSized(w, h, x, y, img, o) => {
            let image = Image { width: img.w, height: img.h, data: &img.data };
            dt.draw_image_with_size_at(*w, *h, *x, *y, &image, &o.build())
        }
        Op::CopySurface(s, r, d) => {
            let src = DrawTarget::from_vec(s.w, s.h, s.data.clone());
            dt.copy_surface(&src, irect(r[0], r[1], r[2], r[3]), IntPoint::new(d[0], d[1]))
        }
        Op::BlendSurface(s, r, d, m) => {
            let src = DrawTarget::from_vec(s.w, s.h, s.data.clone());
            dt.blend_surface(&src, irect(r[0], r[1], r[2], r[3]), IntPoint::new(d[0], d[1]), BLEND_MODES[*m as usize])
        }
        Op::BlendSurfaceAlpha(s, r, d, a) => {
            let src = DrawTarget::from_vec(s.w, s.h, s.data.clone());
            dt.blend_surface_with_alpha(&src, irect(r[0], r[1], r[2], r[3]), IntPoint::new(d[0], d[1]), a.0)
        }
    }
}

pub fn run_scene(sc: &Scene) -> Vec<u32> {
    let mut dt = new_target(sc.w, sc.h, &sc.init);
    for op in &sc.ops {
        apply(&mut dt, op);
    }
    dt.get_data().to_vec()
}

// pixel helpers ---------------------------------------------------------------

#[inline]
pub fn ch(p: u32) -> [u32; 4] {
    [p >> 24, (p >> 16) & 255, (p >> 8) & 255, p & 255]
}
#[inline]
pub fn pack(a: u32, r: u32, g: u32, b: u32) -> u32 {
    (a << 24) | (r << 16) | (g << 8) | b
}
pub fn is_premul(p: u32) -> bool {
    let c = ch(p);
    c[1] <= c[0] && c[2] <= c[0] && c[3] <= c[0]
}
pub fn hex(p: u32) -> String {
    format!("{:#010x}", p)
}

/// the same source with its user-space-to-source-space transform preceded by `pre`
pub fn moved_source<'a>(s: &Source<'a>, pre: &Transform) -> Source<'a> {
    match s.clone() {
        Source::Solid(c) => Source::Solid(c),
        Source::Image(i, e, fl, t) => Source::Image(i, e, fl, pre.then(&t)),
        Source::RadialGradient(g, sp, t) => Source::RadialGradient(g, sp, pre.then(&t)),
        Source::TwoCircleRadialGradient(g, sp, c1, r1, c2, r2, t) => Source::TwoCircleRadialGradient(g, sp, c1, r1, c2, r2, pre.then(&t)),
        Source::LinearGradient(g, sp, t) => Source::LinearGradient(g, sp, pre.then(&t)),
        Source::SweepGradient(g, sp, a, b, t) => Source::SweepGradient(g, sp, a, b, pre.then(&t)),
    }
}
