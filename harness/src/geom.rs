//! `curve_model`: f64 geometry written from the property statements — path walking with the
//! statement's cursor rules, fine flattening of quads/cubics, winding numbers, distances.

use crate::scene::*;

pub type P = (f64, f64);

#[inline]
pub fn sub(a: P, b: P) -> P {
    (a.0 - b.0, a.1 - b.1)
}
#[inline]
pub fn add(a: P, b: P) -> P {
    (a.0 + b.0, a.1 + b.1)
}
#[inline]
pub fn mul(a: P, s: f64) -> P {
    (a.0 * s, a.1 * s)
}
#[inline]
pub fn dot(a: P, b: P) -> f64 {
    a.0 * b.0 + a.1 * b.1
}
#[inline]
pub fn cross(a: P, b: P) -> f64 {
    a.0 * b.1 - a.1 * b.0
}
#[inline]
pub fn len(a: P) -> f64 {
    (a.0 * a.0 + a.1 * a.1).sqrt()
}
#[inline]
pub fn dist(a: P, b: P) -> f64 {
    len(sub(a, b))
}

pub fn quad_at(p0: P, p1: P, p2: P, t: f64) -> P {
    let u = 1.0 - t;
    add(add(mul(p0, u * u), mul(p1, 2.0 * u * t)), mul(p2, t * t))
}

pub fn cubic_at(p0: P, p1: P, p2: P, p3: P, t: f64) -> P {
    let u = 1.0 - t;
    add(add(mul(p0, u * u * u), mul(p1, 3.0 * u * u * t)), add(mul(p2, 3.0 * u * t * t), mul(p3, t * t * t)))
}

pub fn dist_point_seg(q: P, a: P, b: P) -> f64 {
    let ab = sub(b, a);
    let l2 = dot(ab, ab);
    if l2 == 0.0 {
        return dist(q, a);
    }
    let t = (dot(sub(q, a), ab) / l2).clamp(0.0, 1.0);
    dist(q, add(a, mul(ab, t)))
}

/// one drawing element of a walked path, in the coordinate space after `xf`
#[derive(Clone, Debug)]
pub enum Elem {
    Line(P, P),
    Quad(P, P, P),
    Cubic(P, P, P, P),
}

impl Elem {
    pub fn start(&self) -> P {
        match *self {
            Elem::Line(a, _) | Elem::Quad(a, _, _) | Elem::Cubic(a, _, _, _) => a,
        }
    }
    pub fn end(&self) -> P {
        match *self {
            Elem::Line(_, b) | Elem::Quad(_, _, b) | Elem::Cubic(_, _, _, b) => b,
        }
    }
    pub fn at(&self, t: f64) -> P {
        match *self {
            Elem::Line(a, b) => add(mul(a, 1.0 - t), mul(b, t)),
            Elem::Quad(a, b, c) => quad_at(a, b, c, t),
            Elem::Cubic(a, b, c, d) => cubic_at(a, b, c, d, t),
        }
    }
    pub fn ctrl_len(&self) -> f64 {
        match *self {
            Elem::Line(a, b) => dist(a, b),
            Elem::Quad(a, b, c) => dist(a, b) + dist(b, c),
            Elem::Cubic(a, b, c, d) => dist(a, b) + dist(b, c) + dist(c, d),
        }
    }
    pub fn is_curve(&self) -> bool {
        !matches!(self, Elem::Line(..))
    }
    /// polyline with uniform parameter steps such that segments are <= `seg` long (by control polygon), n in [lo, hi]
    pub fn polyline(&self, seg: f64, lo: usize, hi: usize, out: &mut Vec<P>) {
        match self {
            Elem::Line(_, b) => out.push(*b),
            _ => {
                let n = ((self.ctrl_len() / seg).ceil() as usize).clamp(lo, hi);
                for i in 1..=n {
                    out.push(self.at(i as f64 / n as f64));
                }
            }
        }
    }
}

#[derive(Clone, Debug)]
pub struct SubPath {
    pub start: P,
    pub elems: Vec<Elem>,
    /// explicitly closed with Close (matters for stroking; filling closes implicitly anyway)
    pub closed: bool,
}

/// Walk a path with the statement's cursor rules:
/// * MoveTo starts a subpath; LineTo/curve without a current point starts one at its first point
///   (for a curve: its first control point, as DrawTarget does);
/// * Close ends the subpath; a drawing command issued after Close continues from the subpath's
///   starting point (a new subpath beginning there).
pub fn walk(p: &PathSpec, xf: &Xf) -> Vec<SubPath> {
    let t = |x: f32, y: f32| xf_apply(xf, (x as f64, y as f64));
    let mut subs: Vec<SubPath> = Vec::new();
    let mut cur: Option<SubPath> = None;
    let mut pos: Option<P> = None;
    // after Close: cursor at the start point, but no open subpath until something is drawn
    for op in &p.ops {
        match *op {
            POp::M(x, y) => {
                if let Some(s) = cur.take() {
                    subs.push(s);
                }
                let q = t(x, y);
                cur = Some(SubPath { start: q, elems: vec![], closed: false });
                pos = Some(q);
            }
            POp::Z => {
                if let Some(mut s) = cur.take() {
                    s.closed = true;
                    pos = Some(s.start);
                    subs.push(s);
                }
            }
            POp::L(x, y) => {
                let q = t(x, y);
                let from = pos.unwrap_or(q);
                if cur.is_none() {
                    cur = Some(SubPath { start: from, elems: vec![], closed: false });
                }
                cur.as_mut().unwrap().elems.push(Elem::Line(from, q));
                pos = Some(q);
            }
            POp::Q(cx, cy, x, y) => {
                let c = t(cx, cy);
                let q = t(x, y);
                let from = pos.unwrap_or(c);
                if cur.is_none() {
                    cur = Some(SubPath { start: from, elems: vec![], closed: false });
                }
                cur.as_mut().unwrap().elems.push(Elem::Quad(from, c, q));
                pos = Some(q);
            }
            POp::C(ax, ay, bx, by, x, y) => {
                let a = t(ax, ay);
                let b = t(bx, by);
                let q = t(x, y);
                let from = pos.unwrap_or(a);
                if cur.is_none() {
                    cur = Some(SubPath { start: from, elems: vec![], closed: false });
                }
                cur.as_mut().unwrap().elems.push(Elem::Cubic(from, a, b, q));
                pos = Some(q);
            }
        }
    }
    if let Some(s) = cur.take() {
        subs.push(s);
    }
    subs
}

/// fine polylines (one per subpath, first point = start); `seg` = target segment length
pub fn fine(subs: &[SubPath], seg: f64) -> Vec<Vec<P>> {
    subs.iter()
        .map(|s| {
            let mut v = vec![s.start];
            for e in &s.elems {
                e.polyline(seg, 8, 1200, &mut v);
            }
            v
        })
        .collect()
}

/// winding number of q w.r.t. implicitly closed polylines (half-open rule)
pub fn winding(polys: &[Vec<P>], q: P) -> i32 {
    let mut wn = 0;
    for poly in polys {
        let n = poly.len();
        if n < 2 {
            continue;
        }
        for i in 0..n {
            let a = poly[i];
            let b = poly[(i + 1) % n];
            if a.1 <= q.1 && q.1 < b.1 {
                if cross(sub(b, a), sub(q, a)) > 0.0 {
                    wn += 1;
                }
            } else if b.1 <= q.1 && q.1 < a.1 {
                if cross(sub(b, a), sub(q, a)) < 0.0 {
                    wn -= 1;
                }
            }
        }
    }
    wn
}

/// distance from q to the outline (implicit closing segments included when `closing`)
pub fn dist_outline(polys: &[Vec<P>], q: P, closing: bool) -> f64 {
    let mut d = f64::INFINITY;
    for poly in polys {
        let n = poly.len();
        if n == 0 {
            continue;
        }
        if n == 1 {
            d = d.min(dist(q, poly[0]));
            continue;
        }
        let m = if closing { n } else { n - 1 };
        for i in 0..m {
            d = d.min(dist_point_seg(q, poly[i], poly[(i + 1) % n]));
        }
    }
    d
}

/// bounding box of polylines
pub fn bbox(polys: &[Vec<P>]) -> Option<(f64, f64, f64, f64)> {
    let mut it = polys.iter().flatten();
    let f = it.next()?;
    let mut b = (f.0, f.1, f.0, f.1);
    for p in it {
        b.0 = b.0.min(p.0);
        b.1 = b.1.min(p.1);
        b.2 = b.2.max(p.0);
        b.3 = b.3.max(p.1);
    }
    Some(b)
}

/// Per-pixel classification of a w x h surface against an outline:
/// for each pixel centre, (winding number, distance to the outline).  Distances larger than `cap`
/// are reported as `cap` (lets the scan skip far segments cheaply).
pub fn classify_pixels(polys: &[Vec<P>], w: i32, h: i32, cap: f64) -> Vec<(i32, f64)> {
    // gather segments (with implicit closing segment)
    let mut segs: Vec<(P, P)> = Vec::new();
    for poly in polys {
        let n = poly.len();
        if n < 2 {
            continue;
        }
        for i in 0..n {
            segs.push((poly[i], poly[(i + 1) % n]));
        }
    }
    let mut out = vec![(0i32, cap); (w * h) as usize];
    // distances: splat each segment over the pixels within `cap` of its bbox
    for &(a, b) in &segs {
        let x0 = ((a.0.min(b.0) - cap - 0.5).floor() as i64).max(0);
        let x1 = ((a.0.max(b.0) + cap + 0.5).ceil() as i64).min(w as i64 - 1);
        let y0 = ((a.1.min(b.1) - cap - 0.5).floor() as i64).max(0);
        let y1 = ((a.1.max(b.1) + cap + 0.5).ceil() as i64).min(h as i64 - 1);
        for y in y0..=y1 {
            for x in x0..=x1 {
                let q = (x as f64 + 0.5, y as f64 + 0.5);
                let d = dist_point_seg(q, a, b);
                let e = &mut out[(y * w as i64 + x) as usize];
                if d < e.1 {
                    e.1 = d;
                }
            }
        }
        // winding: this segment contributes to pixel rows it spans (half-open), for pixels left of it
        let (ya, yb) = (a.1, b.1);
        if ya == yb {
            continue;
        }
        let (lo, hi, dir) = if ya < yb { (ya, yb, 1) } else { (yb, ya, -1) };
        // rows with lo <= y+0.5 < hi
        let r0 = ((lo - 0.5).ceil() as i64).max(0);
        let r1 = (((hi - 0.5).ceil() as i64) - 1).min(h as i64 - 1);
        for y in r0..=r1 {
            let qy = y as f64 + 0.5;
            if !(lo <= qy && qy < hi) {
                continue;
            }
            // crossing x at qy
            let xc = a.0 + (qy - a.1) * (b.0 - a.0) / (b.1 - a.1);
            // pixels with centre x < xc get the contribution (ray to +x crosses the edge)
            let last = ((xc - 0.5).ceil() as i64 - 1).min(w as i64 - 1);
            for x in 0..=last.max(-1) {
                if (x as f64 + 0.5) < xc {
                    out[(y * w as i64 + x) as usize].0 += dir;
                }
            }
        }
    }
    out
}

/// Pixels that certainly lie outside the exact shape of `p` under `xf`: winding number outside by the path's
/// rule and the whole pixel more than 1 px from the f64 outline (the margin of C08's statement).  Independent of
/// the library's own rendering of the path.
pub fn certainly_outside(p: &PathSpec, xf: &Xf, w: i32, h: i32) -> Vec<bool> {
    const MARGIN: f64 = 1.0 + 0.70711;
    let subs = walk(p, xf);
    let polys = fine(&subs, 0.08);
    let cls = classify_pixels(&polys, w, h, MARGIN + 0.5);
    cls.iter()
        .map(|(wn, d)| {
            let inside = if p.evenodd { wn & 1 != 0 } else { *wn != 0 };
            !inside && *d > MARGIN
        })
        .collect()
}
