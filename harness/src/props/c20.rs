//! C20 — PathBuilder helpers and Path::transform produce the documented geometry.

use crate::gen::*;
use crate::geom::*;
use crate::runner::*;
use crate::scene::*;
use proptest::prelude::*;
use raqote::*;
use serde::{Deserialize, Serialize};
use std::f64::consts::PI;

fn finite_f32() -> BoxedStrategy<f32> {
    prop_oneof![
        4 => -100.0f32..100.0,
        2 => (-40i32..=40).prop_map(|v| v as f32),
        1 => prop::sample::select(vec![0.0f32, -0.0, 0.5, 1e-3, -1e-3, 3999.0, -3999.0, 1e6, -1e6, 1e-30]),
    ]
    .boxed()
}

// ---------------------------------------------------------------------------
// rect

#[derive(Clone, Debug, Serialize, Deserialize)]
pub struct RectCase {
    pub x: f32,
    pub y: f32,
    pub w: f32,
    pub h: f32,
    pub lead: Vec<POp>,
}

fn same_pt(a: Point, x: f32, y: f32) -> bool {
    a.x.to_bits() == x.to_bits() && a.y.to_bits() == y.to_bits() || (a.x == x && a.y == y)
}

pub fn check_rect(c: &RectCase) -> CheckResult {
    let mut pb = PathBuilder::new();
    for op in &c.lead {
        match *op {
            POp::M(x, y) => pb.move_to(x, y),
            POp::L(x, y) => pb.line_to(x, y),
            POp::Q(a, b, x, y) => pb.quad_to(a, b, x, y),
            POp::C(a, b, cc, d, x, y) => pb.cubic_to(a, b, cc, d, x, y),
            POp::Z => pb.close(),
        }
    }
    pb.rect(c.x, c.y, c.w, c.h);
    let p = pb.finish();
    let k = c.lead.len();
    let ops = &p.ops[..];
    if ops.len() != k + 5 {
        return Err(format!("rect appended {} ops, expected 5 (MoveTo, 3 LineTo, Close)", ops.len() as i64 - k as i64));
    }
    let (x, y, w, h) = (c.x, c.y, c.w, c.h);
    let ok = matches!(ops[k], PathOp::MoveTo(a) if same_pt(a, x, y))
        && matches!(ops[k + 1], PathOp::LineTo(a) if same_pt(a, x + w, y))
        && matches!(ops[k + 2], PathOp::LineTo(a) if same_pt(a, x + w, y + h))
        && matches!(ops[k + 3], PathOp::LineTo(a) if same_pt(a, x, y + h))
        && matches!(ops[k + 4], PathOp::Close);
    if !ok {
        return Err(format!("rect({}, {}, {}, {}) produced {:?}, expected MoveTo(x,y) LineTo(x+w,y) LineTo(x+w,y+h) LineTo(x,y+h) Close", x, y, w, h, &ops[k..]));
    }
    if p.winding != Winding::NonZero {
        return Err("finish() winding is not NonZero".into());
    }
    let mut o = Outcome::new();
    o.fp = fp_of(c);
    o.judged = 5;
    o.nontrivial = w != h && (w < 0.0 || h < 0.0 || x != 0.0 || y != 0.0);
    o.class_if(w < 0.0 || h < 0.0, "negative-size");
    o.class_if(w == 0.0 || h == 0.0, "zero-size");
    o.class_if(matches!(c.lead.last(), Some(POp::Z)), "rect-directly-after-close");
    o.class_if(matches!(c.lead.last(), Some(POp::L(a, b) | POp::Q(_, _, a, b) | POp::C(_, _, _, _, a, b)) if *a == c.x && *b == c.y), "rect-begins-at-the-current-point-of-an-open-subpath");
    o.class_if(matches!(c.lead.last(), Some(POp::L(..) | POp::Q(..) | POp::C(..))), "rect-in-the-middle-of-a-subpath");
    Ok(o)
}

fn rect_strategy() -> BoxedStrategy<RectCase> {
    (finite_f32(), finite_f32(), finite_f32(), finite_f32(), prop::collection::vec((finite_f32(), finite_f32(), finite_f32(), finite_f32(), 0u8..6).prop_map(|(x, y, a, b, m)| match m { 0 => POp::M(x, y), 1 | 2 => POp::L(x, y), 3 => POp::Q(a, b, x, y), 4 => POp::C(a, b, b, a, x, y), _ => POp::Z }), 0..4))
        .prop_map(|(x, y, w, h, mut lead)| {
            // half of the non-empty leads end exactly where the rectangle begins (a coincidence random floats
            // never produce): the rectangle is still a subpath of its own, opened by its own MoveTo
            if (x.to_bits() ^ w.to_bits()) & 1 == 0 {
                match lead.last_mut() {
                    Some(POp::M(a, b)) | Some(POp::L(a, b)) | Some(POp::Q(_, _, a, b)) | Some(POp::C(_, _, _, _, a, b)) => {
                        *a = x;
                        *b = y;
                    }
                    _ => {}
                }
            }
            RectCase { x, y, w, h, lead }
        })
        .boxed()
}

// ---------------------------------------------------------------------------
// arc

#[derive(Clone, Debug, Serialize, Deserialize)]
pub struct ArcCase {
    pub cx: f32,
    pub cy: f32,
    pub r: f32,
    pub start: f32,
    pub sweep: f32,
    pub lead: Option<(f32, f32)>,
    /// builder calls made before `lead` and the arc (the arc's first op is a LineTo whatever came before:
    /// after a close(), a rect(), a curve, another subpath)
    #[serde(default)]
    pub prefix: Vec<POp>,
}

pub fn check_arc(c: &ArcCase) -> CheckResult {
    let mut pb = PathBuilder::new();
    let mut k = 0;
    for op in &c.prefix {
        match *op {
            POp::M(x, y) => pb.move_to(x, y),
            POp::L(x, y) => pb.line_to(x, y),
            POp::Q(a, b, x, y) => pb.quad_to(a, b, x, y),
            POp::C(a, b, cc, d, x, y) => pb.cubic_to(a, b, cc, d, x, y),
            POp::Z => pb.close(),
        }
        k += 1;
    }
    if let Some((x, y)) = c.lead {
        pb.move_to(x, y);
        k += 1;
    }
    // finite parameters of any magnitude must give a path: a panic here is this property's failure as well as C07's
    let built = std::panic::catch_unwind(std::panic::AssertUnwindSafe(move || {
        pb.arc(c.cx, c.cy, c.r, c.start, c.sweep);
        pb.finish()
    }));
    let p = match built {
        Ok(p) => p,
        Err(_) => return Err(format!("arc({}, {}, {}, {}, {}) panicked instead of producing a path", c.cx, c.cy, c.r, c.start, c.sweep)),
    };
    if p.ops.len() < k {
        return Err(format!("finish() returned {} ops after {} builder calls and an arc", p.ops.len(), k));
    }
    for (i, op) in c.prefix.iter().enumerate() {
        let same = match (op, &p.ops[i]) {
            (POp::M(x, y), PathOp::MoveTo(q)) | (POp::L(x, y), PathOp::LineTo(q)) => q.x == *x && q.y == *y,
            (POp::Q(a, b, x, y), PathOp::QuadTo(ct, q)) => ct.x == *a && ct.y == *b && q.x == *x && q.y == *y,
            (POp::C(a, b, cc, d, x, y), PathOp::CubicTo(c1, c2, q)) => c1.x == *a && c1.y == *b && c2.x == *cc && c2.y == *d && q.x == *x && q.y == *y,
            (POp::Z, PathOp::Close) => true,
            _ => false,
        };
        if !same {
            return Err(format!("finish(): op {} is {:?}, the builder call was {:?}", i, p.ops[i], op));
        }
    }
    let ops = &p.ops[k..];
    let mut o = Outcome::new();
    o.fp = fp_of(c);
    let (cx, cy, r) = (c.cx as f64, c.cy as f64, c.r as f64);
    let a0 = c.start as f64;
    let sweep = c.sweep as f64;
    let clamped = sweep.clamp(-2.0 * PI, 2.0 * PI);
    // float noise floor: f32 coordinates around the centre
    let eps = 4e-6 * (cx.abs() + cy.abs() + r + 1.0);
    if ops.is_empty() {
        return Err("arc produced no ops".into());
    }
    let start_pt = match ops[0] {
        PathOp::LineTo(q) => (q.x as f64, q.y as f64),
        ref other => return Err(format!("arc's first op is {:?}, expected a LineTo to the arc's starting point", other)),
    };
    let want_start = (cx + r * a0.cos(), cy + r * a0.sin());
    if dist(start_pt, want_start) > 1e-4 * (r + cx.abs() + cy.abs() + 1.0) {
        return Err(format!("arc starts at {:?}, expected centre + r(cos a0, sin a0) = {:?}", start_pt, want_start));
    }
    let mut cur = start_pt;
    let mut total = 0.0f64;
    let mut prev_ang: Option<f64> = None;
    let dir = if sweep < 0.0 { -1.0 } else { 1.0 };
    let angles_meaningful = r > 1e3 * eps;
    for (i, op) in ops[1..].iter().enumerate() {
        let (ct, to) = match *op {
            PathOp::QuadTo(ct, to) => ((ct.x as f64, ct.y as f64), (to.x as f64, to.y as f64)),
            ref other => return Err(format!("arc op {} is {:?}, expected only QuadTo after the leading LineTo", i + 1, other)),
        };
        for s in 0..=32 {
            let q = quad_at(cur, ct, to, s as f64 / 32.0);
            let d = dist(q, (cx, cy));
            if (d - r).abs() > 0.005 * r + eps {
                return Err(format!("arc point {:?} (quad {}, t={}) is at distance {} from the centre, radius is {} (allowed 0.5%)", q, i, s as f64 / 32.0, d, r));
            }
            if angles_meaningful {
                let ang = (q.1 - cy).atan2(q.0 - cx);
                if let Some(pa) = prev_ang {
                    let mut da = ang - pa;
                    while da > PI {
                        da -= 2.0 * PI;
                    }
                    while da < -PI {
                        da += 2.0 * PI;
                    }
                    if da * dir < -1e-4 {
                        return Err(format!("arc angle moves against the sweep direction at quad {} t={} (step {} rad, sweep {})", i, s as f64 / 32.0, da, sweep));
                    }
                    total += da;
                }
                prev_ang = Some(ang);
            }
            o.judged += 1;
        }
        cur = to;
    }
    if angles_meaningful {
        if (total - clamped).abs() > 1e-3 {
            return Err(format!("arc covers {} rad, expected clamp(sweep, -2pi, 2pi) = {} (start {}, sweep {})", total, clamped, a0, sweep));
        }
        let want_end = (cx + r * (a0 + clamped).cos(), cy + r * (a0 + clamped).sin());
        if dist(cur, want_end) > 2e-3 * r + 1e-4 * (cx.abs() + cy.abs() + 1.0) {
            return Err(format!("arc ends at {:?}, expected {:?}", cur, want_end));
        }
    }
    let nquads = ops.len() - 1;
    o.nontrivial = angles_meaningful && (sweep.abs() > PI / 4.0 || sweep < 0.0);
    o.class_if(sweep < 0.0, "negative-sweep");
    o.class_if(sweep.abs() > 2.0 * PI, "beyond-full-turn");
    o.class_if(sweep == 0.0, "zero-sweep");
    o.class_if(r == 0.0, "zero-radius");
    o.class_if(nquads >= 2, "multi-quad");
    o.class_if(c.lead.is_some(), "with-current-point");
    o.class_if(c.lead.is_none() && matches!(c.prefix.last(), Some(POp::Z)), "arc-directly-after-close");
    Ok(o)
}

fn arc_strategy() -> BoxedStrategy<ArcCase> {
    let big = (-100.0f32..100.0, -100.0f32..100.0, prop_oneof![0.5f32..200.0, Just(1.0f32), Just(0.0f32)]);
    let tiny = (-0.5f32..0.5, -0.5f32..0.5, Just(1e-3f32));
    let geom = prop_oneof![8 => big.boxed(), 1 => tiny.boxed()];
    let pi = std::f32::consts::PI;
    let start = prop_oneof![3 => (-4.0 * pi)..(4.0 * pi), 1 => (-16i32..=16).prop_map(move |k| k as f32 * pi / 4.0)];
    let sweep = prop_oneof![
        4 => (-6.0 * pi)..(6.0 * pi),
        2 => (-24i32..=24).prop_map(move |k| k as f32 * pi / 4.0),
        1 => prop::sample::select(vec![0.0f32, 1e-3, -1e-3, 2.0 * pi, -2.0 * pi, 6.3, -6.3]),
        // 'sweep of either sign and magnitude': astronomically over-long sweeps are still one full circle
        1 => prop::sample::select(vec![1.0e6f32, -1.0e6, 1.0e18, -1.0e18, 1.0e30, -3.0e38, f32::MAX, f32::MIN]),
    ];
    let pc = || -100.0f32..100.0;
    let pop = prop_oneof![
        2 => (pc(), pc()).prop_map(|(x, y)| vec![POp::M(x, y)]),
        3 => (pc(), pc()).prop_map(|(x, y)| vec![POp::L(x, y)]),
        1 => (pc(), pc(), pc(), pc()).prop_map(|(a, b, x, y)| vec![POp::Q(a, b, x, y)]),
        1 => (pc(), pc(), pc(), pc(), pc(), pc()).prop_map(|(a, b, c, d, x, y)| vec![POp::C(a, b, c, d, x, y)]),
        2 => Just(vec![POp::Z]),
        // what PathBuilder::rect appends
        1 => (pc(), pc(), pc(), pc()).prop_map(|(x, y, w, h)| vec![POp::M(x, y), POp::L(x + w, y), POp::L(x + w, y + h), POp::L(x, y + h), POp::Z]),
    ];
    let prefix = prop_oneof![2 => Just(Vec::new()), 3 => prop::collection::vec(pop, 1..=4).prop_map(|v| v.concat())];
    (geom, start, sweep, prop::option::of((-100.0f32..100.0, -100.0f32..100.0)), prefix).prop_map(|((cx, cy, r), start, sweep, lead, prefix)| ArcCase { cx, cy, r, start, sweep, lead, prefix }).boxed()
}

// ---------------------------------------------------------------------------
// Path::transform and finish()

#[derive(Clone, Debug, Serialize, Deserialize)]
pub struct XfCase {
    pub path: PathSpec,
    pub xf: Xf,
}

fn pts_of(op: &PathOp) -> (u8, Vec<Point>) {
    match *op {
        PathOp::MoveTo(a) => (0, vec![a]),
        PathOp::LineTo(a) => (1, vec![a]),
        PathOp::QuadTo(a, b) => (2, vec![a, b]),
        PathOp::CubicTo(a, b, c) => (3, vec![a, b, c]),
        PathOp::Close => (4, vec![]),
    }
}

pub fn check_xf(c: &XfCase) -> CheckResult {
    let p = c.path.build();
    // finish(): ops in call order
    if PathSpec::from_path(&p).ops.len() != c.path.ops.len() {
        return Err("finish() returned a different number of ops than builder calls".into());
    }
    for (a, b) in PathSpec::from_path(&p).ops.iter().zip(&c.path.ops) {
        if format!("{:?}", a) != format!("{:?}", b) {
            return Err(format!("finish() op {:?} differs from the builder call {:?}", a, b));
        }
    }
    let t = to_transform(&c.xf);
    let q = p.clone().transform(&t);
    if q.winding != p.winding {
        return Err("Path::transform changed the winding rule".into());
    }
    if q.ops.len() != p.ops.len() {
        return Err(format!("Path::transform changed the number of ops: {} -> {}", p.ops.len(), q.ops.len()));
    }
    let mut o = Outcome::new();
    o.fp = fp_of(c);
    for (i, (a, b)) in p.ops.iter().zip(&q.ops).enumerate() {
        let (ka, pa) = pts_of(a);
        let (kb, pb) = pts_of(b);
        if ka != kb {
            return Err(format!("Path::transform changed op {} from {:?} to {:?}", i, a, b));
        }
        for (u, v) in pa.iter().zip(&pb) {
            let (x, y) = (u.x as f64, u.y as f64);
            let m = &c.xf;
            let wx = x * m[0] as f64 + y * m[2] as f64 + m[4] as f64;
            let wy = x * m[1] as f64 + y * m[3] as f64 + m[5] as f64;
            let sx = (x * m[0] as f64).abs() + (y * m[2] as f64).abs() + (m[4] as f64).abs();
            let sy = (x * m[1] as f64).abs() + (y * m[3] as f64).abs() + (m[5] as f64).abs();
            let tol = |s: f64| 4.0 * f32::EPSILON as f64 * s + 1e-30;
            if (v.x as f64 - wx).abs() > tol(sx) || (v.y as f64 - wy).abs() > tol(sy) {
                return Err(format!("Path::transform op {}: point {:?} mapped to {:?}, expected ({}, {})", i, u, v, wx, wy));
            }
            o.judged += 1;
        }
    }
    o.nontrivial = !matches!(classify_xf(&c.xf), "xf:identity") && c.path.ops.len() >= 2;
    o.class(classify_xf(&c.xf));
    o.class_if(c.path.evenodd, "evenodd");
    Ok(o)
}

fn xf_strategy() -> BoxedStrategy<XfCase> {
    let c = || finite_f32();
    let op = prop_oneof![
        (c(), c()).prop_map(|(x, y)| POp::M(x, y)),
        (c(), c()).prop_map(|(x, y)| POp::L(x, y)),
        (c(), c(), c(), c()).prop_map(|(a, b, x, y)| POp::Q(a, b, x, y)),
        (c(), c(), c(), c(), c(), c()).prop_map(|(a, b, cc, d, x, y)| POp::C(a, b, cc, d, x, y)),
        Just(POp::Z),
    ];
    (prop::collection::vec(op, 0..10), any::<bool>(), prop_oneof![6 => xf_invertible(50.0), 1 => xf_singular()])
        .prop_map(|(ops, evenodd, xf)| XfCase { path: PathSpec { ops, evenodd }, xf })
        .boxed()
}


// ---------------------------------------------------------------------------
// finish(): the ops in call order, nothing added, nothing dropped

#[derive(Clone, Debug, Serialize, Deserialize)]
pub struct OpsCase {
    pub ops: Vec<POp>,
}

pub fn check_ops(c: &OpsCase) -> CheckResult {
    let mut pb = PathBuilder::new();
    for op in &c.ops {
        match *op {
            POp::M(x, y) => pb.move_to(x, y),
            POp::L(x, y) => pb.line_to(x, y),
            POp::Q(a, b, x, y) => pb.quad_to(a, b, x, y),
            POp::C(a, b, cc, d, x, y) => pb.cubic_to(a, b, cc, d, x, y),
            POp::Z => pb.close(),
        }
    }
    let p = pb.finish();
    if p.winding != Winding::NonZero {
        return Err("finish() winding is not NonZero".into());
    }
    let same = |a: &PathOp, b: &POp| match (a, b) {
        (PathOp::MoveTo(p), POp::M(x, y)) | (PathOp::LineTo(p), POp::L(x, y)) => same_pt(*p, *x, *y),
        (PathOp::QuadTo(c1, p), POp::Q(a, b, x, y)) => same_pt(*c1, *a, *b) && same_pt(*p, *x, *y),
        (PathOp::CubicTo(c1, c2, p), POp::C(a, b, cc, d, x, y)) => same_pt(*c1, *a, *b) && same_pt(*c2, *cc, *d) && same_pt(*p, *x, *y),
        (PathOp::Close, POp::Z) => true,
        _ => false,
    };
    if p.ops.len() != c.ops.len() || !p.ops.iter().zip(&c.ops).all(|(a, b)| same(a, b)) {
        return Err(format!("finish() returned {:?} for the calls {:?} (the ops in call order, nothing added or dropped)", p.ops, c.ops));
    }
    let mut o = Outcome::new();
    o.fp = fp_of(c);
    o.judged = c.ops.len() as u64;
    o.nontrivial = c.ops.len() >= 2;
    // an open subpath that ends exactly where it began
    let mut start: Option<(f32, f32)> = None;
    let mut back = false;
    for (i, op) in c.ops.iter().enumerate() {
        match *op {
            POp::M(x, y) => start = Some((x, y)),
            POp::L(x, y) | POp::Q(_, _, x, y) | POp::C(_, _, _, _, x, y) => {
                let last_of_subpath = !matches!(c.ops.get(i + 1), Some(POp::L(..) | POp::Q(..) | POp::C(..) | POp::Z));
                back |= last_of_subpath && start == Some((x, y));
            }
            POp::Z => {}
        }
    }
    o.class_if(back, "open-subpath-ending-exactly-on-its-start");
    o.class_if(c.ops.is_empty(), "no-calls");
    Ok(o)
}

fn ops_strategy() -> BoxedStrategy<OpsCase> {
    let op = (finite_f32(), finite_f32(), finite_f32(), finite_f32(), finite_f32(), finite_f32(), 0u8..8).prop_map(|(x, y, a, b, cc, d, m)| match m {
        0 | 1 => POp::M(x, y),
        2 | 3 | 4 => POp::L(x, y),
        5 => POp::Q(a, b, x, y),
        6 => POp::C(a, b, cc, d, x, y),
        _ => POp::Z,
    });
    (prop::collection::vec(op, 0..=8), any::<u8>())
        .prop_map(|(mut ops, sel)| {
            // coincidence: in a third of the cases the last drawing op of some subpath lands exactly on its MoveTo
            if sel % 3 == 0 {
                let mut start: Option<(f32, f32)> = None;
                let n = ops.len();
                for i in 0..n {
                    let next_draws = matches!(ops.get(i + 1), Some(POp::L(..) | POp::Q(..) | POp::C(..)));
                    match &mut ops[i] {
                        POp::M(x, y) => start = Some((*x, *y)),
                        POp::L(x, y) | POp::Q(_, _, x, y) | POp::C(_, _, _, _, x, y) => {
                            if let (Some(s), false) = (start, next_draws) {
                                *x = s.0;
                                *y = s.1;
                            }
                        }
                        POp::Z => {}
                    }
                }
            }
            OpsCase { ops }
        })
        .boxed()
}

pub fn property(_ctx: &Ctx) -> Property {
    Property {
        id: "C20",
        rule: "part ops: 0-8 builder calls of every kind in any order (a third of the cases with a subpath whose last drawing op lands exactly on its move_to, left open); finish() must return exactly those ops, in call order, bit for bit, with NonZero winding. part rect: finite x,y,w,h (random, integers, +-0, tiny, +-3999, +-1e6; negative and zero sizes), optionally after other ops; oracle = the exact five ops with f32 sums. part arc: centre +-100, r in {0, 1e-3, 0.5..200}, start in +-4pi, sweep in +-6pi plus 0/+-2pi/multiples of pi/4/tiny/huge (1e6..f32::MAX, either sign), with or without a current point, after 0-4 earlier builder calls (move_to, line_to, curves, close, rect) whose ops must come back unchanged and after which the arc still begins with a LineTo; oracle = f64 evaluation of the returned ops (leading LineTo to the start point, only QuadTo after, every sampled point at distance r within 0.5%, polar angle monotone in the sweep direction, total angle = clamp(sweep,+-2pi), end point). part transform: random op lists (all op kinds, any order) x all transform classes incl. singular and mirrored; oracle = same op kinds in order, every point = T*p in f64 within 4 ulp, winding kept, finish() preserves call order. Non-trivial: arc with |sweep|>pi/4 or negative sweep; rect with w != h and negative size or non-zero origin; non-identity transform on >=2 ops; distinct by hash of the case.",
        assumptions: vec!["f32 noise floor of 4e-6*(|centre|+r+1) added to the 0.5% radius tolerance; angle checks skipped when r is below 1000x that floor"],
        parts: vec![
            part_outside_c07("rect", 50_000, 800_000, rect_strategy, check_rect),
            part("arc", 120_000, 2_500_000, arc_strategy, check_arc),
            part_outside_c07("transform", 50_000, 800_000, xf_strategy, check_xf),
            part_outside_c07("ops", 40_000, 600_000, ops_strategy, check_ops),
        ],
        min_class_fraction: vec![("arc", "negative-sweep", 0.3), ("arc", "beyond-full-turn", 0.1), ("arc", "multi-quad", 0.5), ("arc", "arc-directly-after-close", 0.05), ("rect", "negative-size", 0.2), ("ops", "open-subpath-ending-exactly-on-its-start", 0.1), ("rect", "rect-begins-at-the-current-point-of-an-open-subpath", 0.1), ("transform", "xf:unit-diagonal-shear", 0.01)],
        panic_is_violation: false,
    }
}
