//! C13 — image sources show the texel under the pixel centre (pad/repeat, filter, alpha).

use crate::gen::*;
use crate::runner::*;
use crate::scene::*;
use proptest::prelude::*;
use raqote::*;
use serde::{Deserialize, Serialize};

#[derive(Clone, Debug, Serialize, Deserialize)]
pub struct Case {
    pub w: i32,
    pub h: i32,
    pub img: ImageSpec,
    pub repeat: bool,
    pub nearest: bool,
    pub alpha: f32,
    pub ctm: Xf,
    pub sxf: Xf,
}

fn texel(img: &ImageSpec, x: i64, y: i64, repeat: bool) -> u32 {
    let (w, h) = (img.w as i64, img.h as i64);
    let (x, y) = if repeat { (x.rem_euclid(w), y.rem_euclid(h)) } else { (x.clamp(0, w - 1), y.clamp(0, h - 1)) };
    img.data[(y * w + x) as usize]
}

/// candidates for floor(v) when v is only known to +-eps
fn floors(v: f64, eps: f64) -> Vec<i64> {
    let a = (v - eps).floor() as i64;
    let b = (v + eps).floor() as i64;
    if a == b {
        vec![a]
    } else {
        (a..=b).collect()
    }
}

fn scaled_ok(got: u32, texels: &[u32], a255: f64, exact_at_full: bool, slack: f64) -> bool {
    // got must lie, per channel, within [min - slack, max + slack] of the alpha-scaled texels
    let g = ch(got);
    if exact_at_full && a255 >= 255.0 && texels.len() == 1 {
        return got == texels[0];
    }
    for i in 0..4 {
        let mut lo = f64::INFINITY;
        let mut hi = f64::NEG_INFINITY;
        for t in texels {
            let v = ch(*t)[i] as f64 * a255 / 255.0;
            lo = lo.min(v);
            hi = hi.max(v);
        }
        if (g[i] as f64) < lo - slack || (g[i] as f64) > hi + slack {
            return false;
        }
    }
    true
}

pub fn is_int_translation(m: &[f64; 6]) -> bool {
    m[0] == 1.0 && m[1] == 0.0 && m[2] == 0.0 && m[3] == 1.0 && m[4].fract() == 0.0 && m[5].fract() == 0.0
}

/// f64 image-space position of device point p: inverse CTM then the source transform
pub fn image_pos(ctm_inv: &[f64; 6], sxf: &Xf, p: (f64, f64)) -> (f64, f64) {
    let u = xf_apply64(ctm_inv, p);
    xf_apply(sxf, u)
}

pub fn check(c: &Case) -> CheckResult {
    let mut o = Outcome::new();
    o.fp = fp_of(c);
    let Some(inv) = xf_inverse64(&c.ctm) else { return Err("HARNESS: singular CTM generated".into()) };
    let mut dt = blank_target(c.w, c.h);
    dt.set_transform(&to_transform(&c.ctm));
    harmless_prelude(&mut dt, (c.w * 7 + c.h * 13 + c.img.w * 5 + c.img.h * 3 + c.nearest as i32) as u32);
    let src = SrcSpec::Image { img: c.img.clone(), repeat: c.repeat, nearest: c.nearest, xf: c.sxf };
    // cover the whole surface: Src at full coverage (fill of the inverse image of an enlarged surface rectangle)
    let mut pb = PathBuilder::new();
    for (i, cn) in [(-2.0, -2.0), (c.w as f64 + 2.0, -2.0), (c.w as f64 + 2.0, c.h as f64 + 2.0), (-2.0, c.h as f64 + 2.0)].iter().enumerate() {
        let p = xf_apply64(&inv, *cn);
        if i == 0 {
            pb.move_to(p.0 as f32, p.1 as f32)
        } else {
            pb.line_to(p.0 as f32, p.1 as f32)
        }
    }
    pb.close();
    let opts = DrawOptions { blend_mode: BlendMode::Src, alpha: c.alpha, antialias: AntialiasMode::Gray };
    src.with(|s| dt.fill(&pb.finish(), s, &opts));
    let got = dt.get_data();
    let a255 = (c.alpha * 255.0 + 0.5) as u32 as f64;
    // the matrix the library builds in f32: ti.then(source transform); decide the fast path as it must
    let ti = to_transform(&c.ctm).inverse().unwrap();
    let m32 = ti.then(&to_transform(&c.sxf));
    let m = [m32.m11 as f64, m32.m12 as f64, m32.m21 as f64, m32.m22 as f64, m32.m31 as f64, m32.m32 as f64];
    let int_tr = is_int_translation(&m);
    // both matrices pure translations by small multiples of 1/256: every step (f32 inverse, concatenation,
    // 16.16 conversion, per-pixel stepping) is exact, so Nearest must return texel floor(u), floor(v) with no
    // allowance even when the sample falls exactly on a texel boundary
    let dy = |x: &Xf| x[0] == 1.0 && x[1] == 0.0 && x[2] == 0.0 && x[3] == 1.0 && (x[4] * 256.0).fract() == 0.0 && (x[5] * 256.0).fract() == 0.0 && x[4].abs() <= 64.0 && x[5].abs() <= 64.0;
    let dyadic_tr = dy(&c.ctm) && dy(&c.sxf);
    let mut outside = false;
    let mut ambiguous = 0u64;
    let mut weighted = 0u64;
    for py in 0..c.h {
        for px in 0..c.w {
            let i = (py * c.w + px) as usize;
            let centre = (px as f64 + 0.5, py as f64 + 0.5);
            let (u, v) = image_pos(&inv, &c.sxf, centre);
            if u < 0.0 || v < 0.0 || u >= c.img.w as f64 || v >= c.img.h as f64 {
                outside = true;
            }
            // 16.16 matrix entries times the pixel index, plus f32 inverse/concatenation noise
            let scale = 1.0 + u.abs().max(v.abs());
            let eps = if dyadic_tr { 0.0 } else { 1.5 * (px + py + 2) as f64 / 65536.0 + 1e-4 + 4e-6 * scale };
            if int_tr {
                // pure integer translation: both filters must return exactly the addressed texel
                let t = texel(&c.img, u.floor() as i64, v.floor() as i64, c.repeat);
                if !scaled_ok(got[i], &[t], a255, true, 1.0) {
                    return Err(format!(
                        "integer-translation image source: pixel ({},{}) samples image position ({:.3},{:.3}) -> texel {} but shows {} (alpha {})",
                        px,
                        py,
                        u,
                        v,
                        hex(t),
                        hex(got[i]),
                        c.alpha
                    ));
                }
                o.judged += 1;
                continue;
            }
            if c.nearest {
                let mut cands = Vec::new();
                for fx in floors(u, eps) {
                    for fy in floors(v, eps) {
                        cands.push(texel(&c.img, fx, fy, c.repeat));
                    }
                }
                if cands.len() > 1 {
                    ambiguous += 1;
                }
                let ok = cands.iter().any(|t| scaled_ok(got[i], &[*t], a255, true, 1.0));
                if !ok {
                    return Err(format!(
                        "nearest {} image: pixel ({},{}) samples image position ({:.4},{:.4}) -> texel(s) {:?} but shows {} (alpha {})",
                        if c.repeat { "repeat" } else { "pad" },
                        px,
                        py,
                        u,
                        v,
                        cands.iter().map(|t| hex(*t)).collect::<Vec<_>>(),
                        hex(got[i]),
                        c.alpha
                    ));
                }
            } else {
                // bilinear: the four texels around (u - 0.5, v - 0.5), footprint widened by eps
                let mut ts = Vec::new();
                let xs: Vec<i64> = {
                    let f = floors(u - 0.5, eps);
                    (f[0]..=f[f.len() - 1] + 1).collect()
                };
                let ys: Vec<i64> = {
                    let f = floors(v - 0.5, eps);
                    (f[0]..=f[f.len() - 1] + 1).collect()
                };
                for x in &xs {
                    for y in &ys {
                        ts.push(texel(&c.img, *x, *y, c.repeat));
                    }
                }
                if !scaled_ok(got[i], &ts, a255, false, 2.0) {
                    return Err(format!(
                        "bilinear {} image: pixel ({},{}) samples image position ({:.4},{:.4}); it shows {} which is outside the per-channel range of the surrounding texels {:?} (alpha {})",
                        if c.repeat { "repeat" } else { "pad" },
                        px,
                        py,
                        u,
                        v,
                        hex(got[i]),
                        ts.iter().map(|t| hex(*t)).collect::<Vec<_>>(),
                        c.alpha
                    ));
                }
                // ... and, when the footprint is unambiguous, the 4-bit-weighted interpolation itself: weights within
                // one sixteenth (plus the position allowance) of the fractions of (u - 0.5, v - 0.5); the
                // interpolation is linear in each weight, so its extremes lie at the corners of that box
                if xs.len() == 2 && ys.len() == 2 {
                    let (fx, fy) = ((u - 0.5) - xs[0] as f64, (v - 0.5) - ys[0] as f64);
                    let band = 1.0 / 16.0 + eps;
                    let wxs = [(fx - band).clamp(0.0, 1.0), (fx + band).clamp(0.0, 1.0)];
                    let wys = [(fy - band).clamp(0.0, 1.0), (fy + band).clamp(0.0, 1.0)];
                    let t = |ix: usize, iy: usize| ch(texel(&c.img, xs[ix], ys[iy], c.repeat));
                    let (t00, t10, t01, t11) = (t(0, 0), t(1, 0), t(0, 1), t(1, 1));
                    let g = ch(got[i]);
                    for k in 0..4 {
                        let mut lo = f64::INFINITY;
                        let mut hi = f64::NEG_INFINITY;
                        for wx in wxs {
                            for wy in wys {
                                let val = (1.0 - wx) * (1.0 - wy) * t00[k] as f64 + wx * (1.0 - wy) * t10[k] as f64 + (1.0 - wx) * wy * t01[k] as f64 + wx * wy * t11[k] as f64;
                                let val = val * a255 / 255.0;
                                lo = lo.min(val);
                                hi = hi.max(val);
                            }
                        }
                        if (g[k] as f64) < lo - 3.0 || (g[k] as f64) > hi + 3.0 {
                            return Err(format!(
                                "bilinear {} image: pixel ({},{}) samples image position ({:.4},{:.4}), {:.3} and {:.3} of the way from texel ({},{}) to its right / lower neighbour; channel {} of {} is outside [{:.1}, {:.1}] +- 3, what the 4-bit-weighted interpolation of {:?} gives (alpha {})",
                                if c.repeat { "repeat" } else { "pad" },
                                px,
                                py,
                                u,
                                v,
                                fx,
                                fy,
                                xs[0],
                                ys[0],
                                ["a", "r", "g", "b"][k],
                                hex(got[i]),
                                lo,
                                hi,
                                [hex(pack(t00[0], t00[1], t00[2], t00[3])), hex(pack(t10[0], t10[1], t10[2], t10[3])), hex(pack(t01[0], t01[1], t01[2], t01[3])), hex(pack(t11[0], t11[1], t11[2], t11[3]))],
                                c.alpha
                            ));
                        }
                    }
                    weighted += 1;
                }
                // exactly at a texel centre (exactly representable matrices): the texel itself
                let exact_repr = c.ctm == IDENT && c.sxf[1] == 0.0 && c.sxf[2] == 0.0 && c.sxf[0].fract() == 0.0 && c.sxf[3].fract() == 0.0 && c.sxf[4].fract() == 0.0 && c.sxf[5].fract() == 0.0;
                if exact_repr && (u - 0.5).fract() == 0.0 && (v - 0.5).fract() == 0.0 {
                    let t = texel(&c.img, (u - 0.5) as i64, (v - 0.5) as i64, c.repeat);
                    if !scaled_ok(got[i], &[t], a255, true, 1.0) {
                        return Err(format!("bilinear image sampled exactly at the centre of texel ({},{}) shows {} instead of the texel {} (alpha {})", u - 0.5, v - 0.5, hex(got[i]), hex(t), c.alpha));
                    }
                    o.class("bilinear-exact-texel-centre");
                }
            }
            o.judged += 1;
        }
    }
    o.undecided = ambiguous;
    o.class_if(weighted > 0, "bilinear-weights-judged");
    let distinct: std::collections::HashSet<u32> = c.img.data.iter().cloned().collect();
    o.nontrivial = c.img.w >= 2 && c.img.h >= 2 && distinct.len() >= 2 && (outside || !int_tr);
    o.class(match (int_tr, c.nearest, a255 < 255.0) {
        (true, _, _) => "shader:integer-translation",
        (false, true, false) => "shader:nearest",
        (false, true, true) => "shader:nearest-alpha",
        (false, false, false) => "shader:bilinear",
        (false, false, true) => "shader:bilinear-alpha",
    });
    o.class(if c.repeat { "extend:repeat" } else { "extend:pad" });
    o.class_if(xf_det(&c.sxf) == 0.0, "image-transform-singular");
    o.class_if(outside, "samples-outside-image");
    o.class_if(c.repeat && (m[4].abs() >= 16384.0 || m[5].abs() >= 16384.0) && c.img.w != c.img.h, "repeat-tile-more-than-16384-texels-away");
    o.class_if(dyadic_tr && c.nearest && !int_tr && ((m[4] + 0.5).fract() == 0.0 || (m[5] + 0.5).fract() == 0.0), "nearest-sample-exactly-on-texel-boundary");
    o.class(classify_xf(&c.ctm));
    Ok(o)
}

fn small_xf() -> BoxedStrategy<Xf> {
    let ent = || prop_oneof![2 => Just(0.0f32), 3 => Just(1.0f32), 1 => Just(-1.0f32), 2 => (-2.0f32..2.0)];
    prop_oneof![
        3 => Just(IDENT),
        3 => (-12i32..=12, -12i32..=12).prop_map(|(x, y)| [1., 0., 0., 1., x as f32, y as f32]),
        2 => (-12.0f32..12.0, -12.0f32..12.0).prop_map(|(x, y)| [1., 0., 0., 1., x, y]),
        // half and quarter pixel translations: samples land exactly on texel boundaries and centres
        2 => (-24i32..=24, -24i32..=24, prop::sample::select(vec![2.0f32, 4.0])).prop_map(|(x, y, q)| [1., 0., 0., 1., x as f32 / q, y as f32 / q]),
        2 => (0.2f32..3.0, 0.2f32..3.0, -6.0f32..6.0, -6.0f32..6.0).prop_map(|(a, b, x, y)| [a, 0., 0., b, x, y]),
        // scales a few percent above 1 (or exactly 1 on one axis) placed at the origin: every entry of the matrix
        // has a fraction below one sixteenth, yet the sample position leaves the texel centres within a few pixels
        1 => (prop_oneof![Just(1.0f32), 1.001f32..1.06], prop_oneof![Just(1.0f32), 1.001f32..1.06], prop_oneof![Just(0.0f32), 0.0f32..0.03], prop_oneof![Just(0.0f32), 0.0f32..0.03]).prop_map(|(a, b, x, y)| [a, 0., 0., b, x, y]),
        2 => (0.0f32..360.0, 0.3f32..2.5, -6.0f32..6.0, -6.0f32..6.0).prop_map(|(ang, s, x, y)| { let r = (ang as f64).to_radians(); let (c, sn) = (r.cos() as f32 * s, r.sin() as f32 * s); [c, sn, -sn, c, x, y] }),
        1 => (prop::sample::select(vec![3.0f32, 5.0, 2.0, -1.0]), -4i32..=4, -4i32..=4).prop_map(|(k, x, y)| [k, 0., 0., k, x as f32, y as f32]),
        // lattice matrices: every linear entry 0, 1, -1 or arbitrary, whole-number translation (unit-diagonal
        // shears, axis swaps, ...: everything an "is this an integer translation?" shortcut could mistake)
        2 => (ent(), ent(), ent(), ent(), -6i32..=6, -6i32..=6).prop_map(|(a, b, c, d, x, y)| [a, b, c, d, x as f32, y as f32]).prop_filter("conditioned", |x| xf_det(x).abs() >= 0.05),
        1 => (any::<bool>(), prop_oneof![Just(1.0f32), Just(2.0f32), Just(-1.0f32), -2.0f32..2.0], -6i32..=6, -6i32..=6).prop_map(|(up, k, x, y)| if up { [1., k, 0., 1., x as f32, y as f32] } else { [1., 0., k, 1., x as f32, y as f32] }),
    ]
    .boxed()
}

pub fn image_probe(maxw: i32, maxh: i32) -> BoxedStrategy<ImageSpec> {
    prop_oneof![
        3 => image_spec(maxw, maxh),
        // index-coded: texel value encodes its position
        1 => (1..=maxw, 1..=maxh).prop_map(|(w, h)| ImageSpec { w, h, data: (0..w * h).map(|i| 0xff00_0000 | (((i % w) as u32 * 30) << 16) | (((i / w) as u32 * 30) << 8) | 0x80).collect() }),
    ]
    .boxed()
}

/// matrices within 1e-3 of an integer translation (a zoom of 1.0004, a rotation of half a milliradian) on long
/// surfaces: treated as "close enough to a translation" they drift by whole texels within a few hundred pixels
pub fn near_identity_strategy() -> BoxedStrategy<Case> {
    let near = prop_oneof![
        (prop::sample::select(vec![1.0e-4f32, -1.0e-4, 4.0e-4, -5.0e-4, 9.0e-4, -9.0e-4]), prop::sample::select(vec![0.0f32, 3.0e-4, -7.0e-4]), -4i32..=4, -4i32..=4).prop_map(|(e, f, x, y)| [1.0 + e, 0., 0., 1.0 + f, x as f32, y as f32]),
        (prop::sample::select(vec![5.0e-4f32, -5.0e-4, 9.0e-4, 2.0e-4]), -4i32..=4, -4i32..=4).prop_map(|(a, x, y)| [(a as f64).cos() as f32, (a as f64).sin() as f32, -(a as f64).sin() as f32, (a as f64).cos() as f32, x as f32, y as f32]),
        (prop::sample::select(vec![5.0e-4f32, -8.0e-4]), -4i32..=4, -4i32..=4).prop_map(|(k, x, y)| [1., 0., k, 1., x as f32, y as f32]),
    ];
    let tr = (-6i32..=6, -6i32..=6).prop_map(|(x, y)| [1.0f32, 0., 0., 1., x as f32, y as f32]);
    (prop_oneof![(600i32..=2048, 1i32..=2), (1i32..=2, 600i32..=2048)], image_probe(8, 8), any::<bool>(), any::<bool>(), prop_oneof![2 => Just(1.0f32), 1 => Just(0.5f32)], near, tr, any::<bool>())
        .prop_map(|((w, h), img, repeat, nearest, alpha, near, tr, on_ctm)| if on_ctm { Case { w, h, img, repeat, nearest, alpha, ctm: near, sxf: tr } } else { Case { w, h, img, repeat, nearest, alpha, ctm: tr, sxf: near } })
        .boxed()
}

pub fn strategy() -> BoxedStrategy<Case> {
    // images are mostly up to 8x8; one in forty is 257..300 texels long or tall (wrap-around and clamping beyond 256)
    let big = prop_oneof![(257i32..=300, 1i32..=2), (1i32..=2, 257i32..=300)].prop_flat_map(|(w, h)| prop::collection::vec(px_premul(), (w * h) as usize).prop_map(move |data| ImageSpec { w, h, data }));
    // far tiles: the image's own transform moves it tens of thousands of texels away (a small tile repeated over a
    // huge scaled canvas); still inside the 16.16 range of image coordinates
    let far = prop_oneof![11 => Just((0i32, 0i32)), 1 => (prop_oneof![Just(0i32), 16000i32..=30000, -30000i32..=-16000], prop_oneof![Just(0i32), 16000i32..=30000, -30000i32..=-16000])];
    (2i32..=16, 2i32..=16, prop_oneof![39 => image_probe(8, 8), 1 => big.boxed()], any::<bool>(), any::<bool>(), prop_oneof![2 => Just(1.0f32), 1 => Just(0.5f32), 1 => 0.0f32..=1.0], small_xf(), small_xf(), (0i32..=310, 0i32..=310), prop_oneof![14 => Just(1.0f32), 1 => Just(4096.0f32), 1 => Just(65536.0f32), 1 => Just(1.0f32 / 64.0), 1 => Just(1.0f32 / 4096.0)], far, 0u8..24)
        .prop_map(|(w, h, img, repeat, nearest, alpha, mut ctm, mut sxf, (bx, by), zoom, (fx, fy), collapse)| {
            // one image transform in twelve is singular (the source's own transform is only ever applied forwards, so
            // it need not be invertible): the whole plane shows one row, one column or one point of the image
            match collapse {
                0 => {
                    // image y constant: a horizontal strip of the image smeared along the other direction
                    sxf[1] = 0.0;
                    sxf[3] = 0.0;
                    sxf[5] = (by % img.h.max(1)) as f32 + 0.5;
                }
                1 => {
                    sxf[0] = 0.0;
                    sxf[2] = 0.0;
                    sxf[4] = (bx % img.w.max(1)) as f32 + 0.5;
                }
                _ => {}
            }
            sxf[4] += fx as f32;
            sxf[5] += fy as f32;
            // zoom: user units `zoom` times smaller; both the CTM (user to device) and the image's transform (user to
            // image) grow by the same factor, device-to-image space is the same map (powers of two: exact)
            if zoom != 1.0 {
                for v in ctm.iter_mut().take(4) {
                    *v *= zoom;
                }
                for v in sxf.iter_mut().take(4) {
                    *v *= zoom;
                }
            }
            // a long image is looked at anywhere along its length (and just beyond its far end)
            if img.w > 256 {
                sxf[4] += bx as f32;
            }
            if img.h > 256 {
                sxf[5] += by as f32;
            }
            Case { w, h, img, repeat, nearest, alpha, ctm, sxf }
        })
        .prop_filter("invertible", |c| xf_det(&c.ctm).abs() > 1e-3)
        .boxed()
}

// ---------------------------------------------------------------------------
// draw_image_at / draw_image_with_size_at

#[derive(Clone, Debug, Serialize, Deserialize)]
pub struct DrawCase {
    pub w: i32,
    pub h: i32,
    pub init: Vec<u32>,
    pub img: ImageSpec,
    pub x: f32,
    pub y: f32,
    /// None: draw_image_at; Some((w,h)): draw_image_with_size_at
    pub size: Option<(f32, f32)>,
}

pub fn check_draw(c: &DrawCase) -> CheckResult {
    let mut o = Outcome::new();
    o.fp = fp_of(c);
    let mut dt = new_target(c.w, c.h, &c.init);
    let image = Image { width: c.img.w, height: c.img.h, data: &c.img.data };
    let opts = DrawOptions { blend_mode: BlendMode::Src, alpha: 1.0, antialias: AntialiasMode::Gray };
    match c.size {
        None => dt.draw_image_at(c.x, c.y, &image, &opts),
        Some((sw, sh)) => dt.draw_image_with_size_at(sw, sh, c.x, c.y, &image, &opts),
    }
    let got = dt.get_data();
    let (rw, rh) = c.size.unwrap_or((c.img.w as f32, c.img.h as f32));
    // (a negative size names the same rectangle from its other side, as fill_rect reads it; the statement does not
    // say which way round the image then lies, so both orientations are accepted, but it is still the whole image
    // stretched over the rectangle)
    let (neg_w, neg_h) = (rw < 0.0, rh < 0.0);
    let (x0, x1) = ((c.x.min(c.x + rw)) as f64, (c.x.max(c.x + rw)) as f64);
    let (y0, y1) = ((c.y.min(c.y + rh)) as f64, (c.y.max(c.y + rh)) as f64);
    let (rw, rh) = (rw.abs(), rh.abs());
    let integer = c.size.is_none() && c.x.fract() == 0.0 && c.y.fract() == 0.0;
    let mut inside_px = 0;
    for py in 0..c.h {
        for px in 0..c.w {
            let i = (py * c.w + px) as usize;
            let (l, t, r, b) = (px as f64, py as f64, px as f64 + 1.0, py as f64 + 1.0);
            if r <= x0 || l >= x1 || b <= y0 || t >= y1 {
                // wholly outside the rectangle
                if got[i] != c.init[i] {
                    return Err(format!("pixel ({},{}) is wholly outside the image rectangle [{},{})x[{},{}) but changed from {} to {}", px, py, x0, x1, y0, y1, hex(c.init[i]), hex(got[i])));
                }
                o.judged += 1;
                continue;
            }
            let wholly_inside = l >= x0 && r <= x1 && t >= y0 && b <= y1;
            if !wholly_inside {
                o.undecided += 1;
                continue;
            }
            inside_px += 1;
            if integer {
                let (ix, iy) = (px - c.x as i32, py - c.y as i32);
                let t = c.img.data[(iy * c.img.w + ix) as usize];
                if got[i] != t {
                    return Err(format!("draw_image_at({}, {}): pixel ({},{}) must show texel ({},{}) = {} exactly (Src) but is {}", c.x, c.y, px, py, ix, iy, hex(t), hex(got[i])));
                }
            } else {
                // sample position in image space, bilinear rule
                let u = (px as f64 + 0.5 - x0) * c.img.w as f64 / rw as f64;
                let v = (py as f64 + 0.5 - y0) * c.img.h as f64 / rh as f64;
                let eps = (px + py + 2) as f64 / 65536.0 * (1.0 + (c.img.w as f64 / rw as f64).max(c.img.h as f64 / rh as f64)) + 2e-3;
                let us = if neg_w { vec![u, c.img.w as f64 - u] } else { vec![u] };
                let vs = if neg_h { vec![v, c.img.h as f64 - v] } else { vec![v] };
                let mut ts = Vec::new();
                for u in &us {
                    for v in &vs {
                        let fx = floors(u - 0.5, eps);
                        let fy = floors(v - 0.5, eps);
                        for x in fx[0]..=fx[fx.len() - 1] + 1 {
                            for y in fy[0]..=fy[fy.len() - 1] + 1 {
                                ts.push(texel(&c.img, x, y, false));
                            }
                        }
                    }
                }
                if !scaled_ok(got[i], &ts, 255.0, false, 2.0) {
                    return Err(format!(
                        "stretched/offset image: pixel ({},{}) samples image position ({:.3},{:.3}); it shows {} outside the range of the surrounding texels {:?}",
                        px,
                        py,
                        u,
                        v,
                        hex(got[i]),
                        ts.iter().map(|t| hex(*t)).collect::<Vec<_>>()
                    ));
                }
            }
            o.judged += 1;
        }
    }
    let distinct: std::collections::HashSet<u32> = c.img.data.iter().cloned().collect();
    o.nontrivial = inside_px > 0 && distinct.len() >= 2;
    o.class_if(neg_w || neg_h, "negative-size");
    o.class_if(matches!(c.size, Some((sw, sh)) if sw as i32 == c.img.w && sh as i32 == c.img.h && (sw.fract() != 0.0 || sh.fract() != 0.0)), "size-less-than-one-texel-larger-than-the-image");
    o.class(if c.size.is_some() { "draw_image_with_size_at" } else if integer { "draw_image_at:integer" } else { "draw_image_at:fractional" });
    Ok(o)
}

fn draw_strategy() -> BoxedStrategy<DrawCase> {
    (2i32..=14, 2i32..=14)
        .prop_flat_map(|(w, h)| {
            let pos = prop_oneof![2 => (-6..=w, -6..=h).prop_map(|(x, y)| (x as f32, y as f32)), 1 => (-6.0f32..w as f32, -6.0f32..h as f32)];
            let sz = || prop_oneof![5 => 0.7f32..20.0, 1 => -20.0f32..-0.7];
            let size = prop::option::weighted(0.4, (sz(), sz()));
            (Just((w, h)), init_pixels(w, h), image_probe(8, 8), pos, size, (0u8..4, 0.05f32..0.95, 0.05f32..0.95))
        })
        .prop_map(|((w, h), init, img, (x, y), size, (near, fx, fy))| {
            // a quarter of the sized draws stretch the image by less than one texel in each direction (a size whose
            // whole part equals the image's: still a rescale, by up to a factor of two for a 1-texel image)
            let size = match size {
                Some(_) if near == 0 => Some((img.w as f32 + fx, img.h as f32 + fy)),
                other => other,
            };
            DrawCase { w, h, init, img, x, y, size }
        })
        .boxed()
}

pub fn property(_ctx: &Ctx) -> Property {
    Property {
        id: "C13",
        rule: "part sample: images 1..8 x 1..8 (one in forty 257..300 texels long or tall) of random premultiplied texels (plus position-coded images), Pad/Repeat, Nearest/Bilinear, alpha in {1,0.5,uniform}, CTM and source transform each from {identity, integer translation (negative, beyond the image), fractional translation, half/quarter-pixel translation, scale 0.2-3, rotation x scale, integer scales 2/3/5/-1, lattice matrices (entries 0/1/-1/arbitrary) and unit-diagonal shears with whole-number translations}, optionally with user space zoomed (both matrices times 4096, 65536 or 1/64), surfaces 2..16 px, rendered with a full-surface Src fill. Oracle: f64 texel addressing M(pixel centre) (inverse CTM then source transform): nearest = texel(floor) with clamp / euclidean wrap, either neighbour accepted within the 16.16 epsilon (no allowance when both matrices are translations by multiples of 1/256, where every step is exact; half- and quarter-pixel translations are generated so that samples fall exactly on texel boundaries); bilinear within [min-2,max+2] of the four texels around (u-0.5,v-0.5) and, where that footprint is unambiguous, within 3 of the 4-bit-weighted interpolation of them (weights within 1/16 of the fractions), the exact texel at exactly representable texel centres; integer translations exact for both filters; alpha scaling within 1/255 (exact at alpha 1). part near-identity: surfaces 600..2048 px long, CTM or image transform within 1e-3 of an integer translation (scale 1+-e, rotation or shear of +-5e-4..9e-4), same oracle. part draw: draw_image_at at integer (exact texel placement) and fractional positions and draw_image_with_size_at with random sizes (one dimension in six negative: the same rectangle named from its other side, either orientation of the image accepted); pixels wholly outside the rectangle untouched, inside by the bilinear rule. Non-trivial: image >= 2x2 with >= 2 distinct texels and (some sample outside the image or a non-integer-translation matrix); distinct by hash of the case.",
        assumptions: vec!["sampling epsilon 1.5 (px+py+2)/65536 + 1e-4 (+4e-6 x coordinate scale) for the 16.16 matrix and the f32 inverse", "pixels straddling the rectangle edge of draw_image_* are not judged"],
        parts: vec![part("sample", 100_000, 2_000_000, strategy, check), part("draw", 40_000, 600_000, draw_strategy, check_draw), part("near-identity", 600, 12_000, near_identity_strategy, check)],
        min_class_fraction: vec![
            ("sample", "shader:integer-translation", 0.05),
            ("sample", "shader:nearest", 0.1),
            ("sample", "shader:nearest-alpha", 0.1),
            ("sample", "shader:bilinear", 0.1),
            ("sample", "shader:bilinear-alpha", 0.1),
            ("sample", "samples-outside-image", 0.5),
            ("sample", "extend:repeat", 0.3),
            ("sample", "image-transform-singular", 0.04),
            ("draw", "size-less-than-one-texel-larger-than-the-image", 0.05),
        ],
        panic_is_violation: false,
    }
}
