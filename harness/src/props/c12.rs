//! C12 — gradient sources are positioned and coloured as constructed.

use crate::gen::*;
use crate::runner::*;
use crate::scene::*;
use proptest::prelude::*;
use raqote::*;
use serde::{Deserialize, Serialize};

#[derive(Clone, Debug, Serialize, Deserialize)]
pub struct Case {
    pub w: i32,
    pub h: i32,
    pub src: SrcSpec,
    pub alpha: f32,
    pub ctm: Xf,
    /// an extra transform of the gradient's own (user space -> the space the constructor's coordinates are in),
    /// put into the public `Source` variant by hand: an elliptical radial gradient, a sheared sweep, ...
    #[serde(default)]
    pub own: Option<Xf>,
}

/// gradient parameter t at user-space point p, by the statement's definitions; None = no admissible circle
pub fn param(src: &SrcSpec, p: (f64, f64)) -> Option<f64> {
    match src {
        SrcSpec::Linear { x0, y0, x1, y1, .. } => {
            let (dx, dy) = ((*x1 - *x0) as f64, (*y1 - *y0) as f64);
            let l2 = dx * dx + dy * dy;
            Some(((p.0 - *x0 as f64) * dx + (p.1 - *y0 as f64) * dy) / l2)
        }
        SrcSpec::Radial { cx, cy, r, .. } => Some(((p.0 - *cx as f64).powi(2) + (p.1 - *cy as f64).powi(2)).sqrt() / *r as f64),
        SrcSpec::TwoCircle { x1, y1, r1, x2, y2, r2, .. } => {
            // largest t with |p - c(t)| = r(t), r(t) >= 0
            let (cdx, cdy) = ((*x2 - *x1) as f64, (*y2 - *y1) as f64);
            let (pdx, pdy) = (p.0 - *x1 as f64, p.1 - *y1 as f64);
            let dr = (*r2 - *r1) as f64;
            let a = cdx * cdx + cdy * cdy - dr * dr;
            let b = pdx * cdx + pdy * cdy + *r1 as f64 * dr;
            let c = pdx * pdx + pdy * pdy - (*r1 as f64).powi(2);
            let mut best: Option<f64> = None;
            let mut consider = |t: f64| {
                if t.is_finite() && *r1 as f64 + t * dr >= 0.0 {
                    best = Some(best.map_or(t, |b: f64| b.max(t)));
                }
            };
            if a.abs() < 1e-12 {
                if b.abs() > 1e-12 {
                    consider(0.5 * c / b);
                }
            } else {
                let disc = b * b - a * c;
                if disc >= 0.0 {
                    consider((b + disc.sqrt()) / a);
                    consider((b - disc.sqrt()) / a);
                }
            }
            best
        }
        SrcSpec::Sweep { cx, cy, a0, a1, .. } => {
            // on-screen clockwise angle (y down) in [0,360)
            let mut ang = (p.1 - *cy as f64).atan2(p.0 - *cx as f64).to_degrees();
            if ang < 0.0 {
                ang += 360.0;
            }
            Some((ang - *a0 as f64) / (*a1 as f64 - *a0 as f64))
        }
        _ => None,
    }
}

fn spread_map(t: f64, spread: u8) -> f64 {
    match spread {
        0 => t.clamp(0.0, 1.0),
        1 => t - t.floor(),
        _ => {
            let k = t.rem_euclid(2.0);
            if k > 1.0 {
                2.0 - k
            } else {
                k
            }
        }
    }
}

/// colour (a,r,g,b in 0..255 reals, premultiplied, times alpha) of the gradient at parameter t' in [0,1]
fn colour_at(stops: &[Stop], tp: f64, a255: f64) -> [f64; 4] {
    let un = |c: u32| -> [f64; 4] {
        let k = ch(c);
        [k[0] as f64, k[1] as f64, k[2] as f64, k[3] as f64]
    };
    let first = &stops[0];
    let last = &stops[stops.len() - 1];
    let c = if tp <= first.pos as f64 {
        un(first.color)
    } else if tp >= last.pos as f64 {
        un(last.color)
    } else {
        let mut out = un(last.color);
        for w in stops.windows(2) {
            let (p0, p1) = (w[0].pos as f64, w[1].pos as f64);
            if tp >= p0 && tp <= p1 {
                let f = if p1 > p0 { (tp - p0) / (p1 - p0) } else { 0.0 };
                let (c0, c1) = (un(w[0].color), un(w[1].color));
                out = [0, 1, 2, 3].map(|i| c0[i] + (c1[i] - c0[i]) * f);
                break;
            }
        }
        out
    };
    // premultiply, then global alpha
    let a = c[0] / 255.0;
    let g = a255 / 255.0;
    [c[0] * g, c[1] * a * g, c[2] * a * g, c[3] * a * g]
}

pub fn stops_of(src: &SrcSpec) -> (&[Stop], u8) {
    match src {
        SrcSpec::Linear { stops, spread, .. } | SrcSpec::Radial { stops, spread, .. } | SrcSpec::TwoCircle { stops, spread, .. } | SrcSpec::Sweep { stops, spread, .. } => (stops, *spread),
        _ => panic!("not a gradient"),
    }
}

pub const DRIFT_KEY: &str = "C12-fixed-point-matrix-drift";

/// `drift_open`: the known finding DRIFT_KEY is open (far pixels are judged with the widened window on t)
pub fn check_with(c: &Case, drift_open: bool) -> CheckResult {
    let mut o = Outcome::new();
    o.fp = fp_of(c);
    let Some(inv) = xf_inverse64(&c.ctm) else { return Err("HARNESS: singular CTM".into()) };
    let mut dt = blank_target(c.w, c.h);
    dt.set_transform(&to_transform(&c.ctm));
    // (C10's harmless preludes between set_transform and the draw: anything cached per transform must survive them)
    harmless_prelude(&mut dt, (c.w * 7 + c.h * 13 + (c.alpha.to_bits() >> 9) as i32) as u32 % 16);
    let mut pb = PathBuilder::new();
    for (i, cn) in [(-2.0, -2.0), (c.w as f64 + 2.0, -2.0), (c.w as f64 + 2.0, c.h as f64 + 2.0), (-2.0, c.h as f64 + 2.0)].iter().enumerate() {
        let p = xf_apply64(&inv, *cn);
        if i == 0 {
            pb.move_to(p.0 as f32, p.1 as f32)
        } else {
            pb.line_to(p.0 as f32, p.1 as f32)
        }
    }
    pb.close();
    let opts = DrawOptions { blend_mode: BlendMode::Src, alpha: c.alpha, antialias: AntialiasMode::Gray };
    let cover = pb.finish();
    let own_t = c.own.map(|e| to_transform(&e));
    let draw = |d: &mut DrawTarget, o: &DrawOptions| {
        c.src.with(|s| match &own_t {
            Some(e) => d.fill(&cover, &moved_source(s, e), o),
            None => d.fill(&cover, s, o),
        })
    };
    draw(&mut dt, &opts);
    let got = dt.get_data();
    // user space -> gradient space, and the linear part of gradient space -> device space
    let to_grad = |p: (f64, f64)| match &c.own {
        Some(e) => xf_apply(e, p),
        None => p,
    };
    let fwd: [f64; 4] = {
        let m = &c.ctm;
        let cm = [m[0] as f64, m[1] as f64, m[2] as f64, m[3] as f64];
        match &c.own {
            Some(e) => {
                let Some(oi) = xf_inverse64(e) else { return Err("HARNESS: singular own transform".into()) };
                [oi[0] * cm[0] + oi[1] * cm[2], oi[0] * cm[1] + oi[1] * cm[3], oi[2] * cm[0] + oi[3] * cm[2], oi[2] * cm[1] + oi[3] * cm[3]]
            }
            None => cm,
        }
    };
    // The same fill through a clip *path* (a pixel-aligned rectangle that leaves the first columns and rows out):
    // spans then start left of the first visible pixel and go through the clip-mask blitters, with Src and with
    // SrcOver. Inside the clip the colours must be the unclipped ones, outside nothing may be drawn.
    if c.w >= 3 && c.h >= 3 {
        let (cx0, cy0) = (1 + (c.w / 3), 1);
        for mode in [BlendMode::Src, BlendMode::SrcOver] {
            let mut d2 = blank_target(c.w, c.h);
            let mut cp = PathBuilder::new();
            cp.rect(cx0 as f32, cy0 as f32, (c.w - cx0) as f32, (c.h - cy0 - 1) as f32);
            d2.push_clip(&cp.finish());
            d2.set_transform(&to_transform(&c.ctm));
            let o2 = DrawOptions { blend_mode: mode, alpha: c.alpha, antialias: AntialiasMode::Gray };
            draw(&mut d2, &o2);
            let g2 = d2.get_data();
            for py in 0..c.h {
                for px in 0..c.w {
                    let i = (py * c.w + px) as usize;
                    let inside = px >= cx0 && py >= cy0 && py < c.h - 1;
                    let want = if inside { got[i] } else { 0 };
                    if g2[i] != want {
                        return Err(format!(
                            "{} gradient filled through a clip path (rect {},{} .. {},{}) with {:?}: pixel ({},{}) is {} but the unclipped fill gives {} there{}",
                            c.src.kind(),
                            cx0,
                            cy0,
                            c.w,
                            c.h - 1,
                            mode,
                            px,
                            py,
                            hex(g2[i]),
                            hex(got[i]),
                            if inside { "" } else { " (and this pixel is outside the clip)" }
                        ));
                    }
                }
            }
        }
        o.class("also-through-clip-path");
        // And inside a layer group whose origin is not the surface's (pushed under an offset clip rectangle): the
        // gradient is positioned by the surface's coordinates, not by the layer's. SrcOver onto the transparent
        // layer and an opaque pop reproduce the source pixels exactly.
        let mut d3 = blank_target(c.w, c.h);
        d3.push_clip_rect(IntRect::new(IntPoint::new(cx0, cy0), IntPoint::new(c.w, c.h - 1)));
        d3.push_layer(1.0);
        d3.set_transform(&to_transform(&c.ctm));
        let o3 = DrawOptions { blend_mode: BlendMode::SrcOver, alpha: c.alpha, antialias: AntialiasMode::Gray };
        draw(&mut d3, &o3);
        d3.pop_layer();
        d3.pop_clip();
        let g3 = d3.get_data();
        for py in 0..c.h {
            for px in 0..c.w {
                let i = (py * c.w + px) as usize;
                let inside = px >= cx0 && py >= cy0 && py < c.h - 1;
                let want = if inside { got[i] } else { 0 };
                if g3[i] != want {
                    return Err(format!(
                        "{} gradient filled into a layer pushed under the clip rectangle {},{} .. {},{}: pixel ({},{}) is {} but the fill straight onto the surface gives {} there{}",
                        c.src.kind(),
                        cx0,
                        cy0,
                        c.w,
                        c.h - 1,
                        px,
                        py,
                        hex(g3[i]),
                        hex(got[i]),
                        if inside { "" } else { " (and this pixel is outside the clip)" }
                    ));
                }
            }
        }
        o.class("also-inside-offset-layer");
    }
    let (stops, spread) = stops_of(&c.src);
    let a255 = (c.alpha * 255.0 + 0.5) as u32 as f64;
    let widen = matches!(c.src, SrcSpec::TwoCircle { .. } | SrcSpec::Sweep { .. });
    let mut tmin = f64::INFINITY;
    let mut tmax = f64::NEG_INFINITY;
    let mut colours = std::collections::HashSet::new();
    // Pad: pixels well beyond an end must all show the same (first / last stop) colour
    let mut pad_lo: Option<(f64, u32)> = None;
    let mut pad_hi: Option<(f64, u32)> = None;
    for py in 0..c.h {
        for px in 0..c.w {
            let i = (py * c.w + px) as usize;
            let user = to_grad(xf_apply64(&inv, (px as f64 + 0.5, py as f64 + 0.5)));
            let Some(t) = param(&c.src, user) else {
                if got[i] != 0 {
                    return Err(format!("pixel ({},{}) has no admissible circle of the two-circle gradient but is {} instead of transparent", px, py, hex(got[i])));
                }
                o.judged += 1;
                continue;
            };
            tmin = tmin.min(t);
            tmax = tmax.max(t);
            colours.insert(got[i]);
            // sweep: the angle is discontinuous along the ray at angle 0; pixels within half a pixel of it are ambiguous
            if let SrcSpec::Sweep { cx, cy, .. } = &c.src {
                // (distances in device pixels: the centre and the ray mapped through the CTM)
                let (dx, dy) = (user.0 - *cx as f64, user.1 - *cy as f64);
                let m = &fwd;
                let dev = (dx * m[0] + dy * m[2], dx * m[1] + dy * m[3]);
                let ray = (m[0], m[1]);
                let rl = (ray.0 * ray.0 + ray.1 * ray.1).sqrt();
                let r = (dev.0 * dev.0 + dev.1 * dev.1).sqrt();
                let along = (dev.0 * ray.0 + dev.1 * ray.1) / rl;
                let across = (dev.0 * ray.1 - dev.1 * ray.0).abs() / rl;
                if r < 1.5 || (along > 0.0 && across < 0.75) {
                    o.undecided += 1;
                    continue;
                }
            }
            let e0 = 3.0 / 255.0 + if widen { t.abs() / 255.0 } else { 0.0 } + 1e-4;
            // Known finding DRIFT_KEY: the device-to-gradient matrix is held in 16.16 fixed point, each entry off by
            // up to half a unit, so the parameter drifts by up to (|x| + |y|) 2^-17 with the distance from the
            // surface's origin; beyond a few hundred pixels that exceeds the statement's 3/255. While the finding
            // is open, a pixel more than 256 px out that fails the stated window is judged with the window widened
            // by (|x| + |y| + 2) 2^-16 and counted; anything beyond that is still a violation.
            let drift = (px as f64 + py as f64 + 2.0) / 65536.0;
            let attempts: &[f64] = if drift_open && px + py >= 256 { &[0.0, 1.0] } else { &[0.0] };
            let mut verdict: Result<(), String> = Ok(());
            let mut apex = false;
            for (ai, extra) in attempts.iter().enumerate() {
            let e = e0 + extra * drift;
            let (lo, hi) = (t - e, t + e);
            // two-circle: when the tolerance window on t reaches parameters whose circle has a negative
            // radius (the pixel sits at the apex of the cone of circles), "no admissible circle" is one of
            // the admissible outcomes, and that outcome is transparent
            if let SrcSpec::TwoCircle { r1, r2, .. } = &c.src {
                if (*r1 as f64) + lo * (*r2 as f64 - *r1 as f64) < 0.0 && got[i] == 0 {
                    o.undecided += 1;
                    verdict = Ok(());
                    apex = true;
                    break;
                }
            }
            // sample the window: 65 points plus every stop position and spread seam inside it
            let mut ts: Vec<f64> = (0..=64).map(|k| lo + (hi - lo) * k as f64 / 64.0).collect();
            let kmin = lo.floor() as i64;
            let kmax = hi.ceil() as i64;
            if kmax - kmin <= 4 {
                for k in kmin..=kmax {
                    for s in stops {
                        for cand in [k as f64 + s.pos as f64, k as f64 + 1.0 - s.pos as f64] {
                            if cand >= lo && cand <= hi {
                                ts.push(cand);
                            }
                        }
                    }
                    let kf = k as f64;
                    for cand in [kf - 1e-9, kf, kf + 1e-9] {
                        if cand >= lo && cand <= hi {
                            ts.push(cand);
                        }
                    }
                }
            } else if spread != 0 {
                // a window of more than two periods of a repeating/reflecting gradient holds every colour of it
                for s in stops {
                    ts.push(s.pos as f64);
                }
                ts.extend([0.0, 1e-9, 1.0 - 1e-9, 1.0]);
            }
            // a premultiplied channel is quadratic in t between two stops (alpha(t) * colour(t)), so its extreme
            // can lie strictly inside a stop interval: when the window is wide enough for the 65 samples to
            // be sparse against the stop gaps (>= 0.02), sample every stop interval densely as well
            if hi - lo > 0.05 {
                let wide = kmax - kmin > 4;
                let ks: Vec<i64> = if wide { vec![0] } else { (kmin..=kmax).collect() };
                for k in ks {
                    for pair in stops.windows(2) {
                        for j in 1..16 {
                            let p = pair[0].pos as f64 + (pair[1].pos as f64 - pair[0].pos as f64) * j as f64 / 16.0;
                            for cand in [k as f64 + p, k as f64 + 1.0 - p] {
                                if (wide && spread != 0) || (cand >= lo && cand <= hi) {
                                    ts.push(cand);
                                }
                            }
                        }
                    }
                }
            }
            let mut cmin = [f64::INFINITY; 4];
            let mut cmax = [f64::NEG_INFINITY; 4];
            for tt in ts {
                let col = colour_at(stops, spread_map(tt, spread), a255);
                for k in 0..4 {
                    cmin[k] = cmin[k].min(col[k]);
                    cmax[k] = cmax[k].max(col[k]);
                }
            }
            let g = ch(got[i]);
            let mut this: Result<(), String> = Ok(());
            for k in 0..4 {
                if (g[k] as f64) < cmin[k] - 4.0 || (g[k] as f64) > cmax[k] + 4.0 {
                    this = Err(format!(
                        "{} gradient (spread {}, alpha {}): pixel ({},{}) has t = {:.4}; channel {} of {} is outside [{:.1}, {:.1}] +- 4, the range of the gradient colour for t within {:.4} of it",
                        c.src.kind(),
                        spread,
                        c.alpha,
                        px,
                        py,
                        t,
                        ["a", "r", "g", "b"][k],
                        hex(got[i]),
                        cmin[k],
                        cmax[k],
                        e
                    ));
                    break;
                }
            }
            match this {
                Ok(()) => {
                    if ai > 0 {
                        o.excluded_known += 1;
                    }
                    verdict = Ok(());
                    break;
                }
                Err(m) => {
                    if ai == 0 {
                        verdict = Err(m);
                    }
                }
            }
            }
            verdict?;
            if apex {
                continue;
            }
            let e = e0;
            o.judged += 1;
            if spread == 0 {
                if t < -4.0 / 255.0 - e {
                    if pad_lo.map_or(true, |(bt, _)| t < bt) {
                        pad_lo = Some((t, got[i]));
                    }
                }
                if t > 1.0 + 4.0 / 255.0 + e {
                    if pad_hi.map_or(true, |(bt, _)| t > bt) {
                        pad_hi = Some((t, got[i]));
                    }
                }
            }
        }
    }
    if spread == 0 {
        for py in 0..c.h {
            for px in 0..c.w {
                let i = (py * c.w + px) as usize;
                let user = to_grad(xf_apply64(&inv, (px as f64 + 0.5, py as f64 + 0.5)));
                if let Some(t) = param(&c.src, user) {
                    let e = 3.0 / 255.0 + if widen { t.abs() / 255.0 } else { 0.0 } + 1e-4 + if drift_open && px + py >= 256 { (px as f64 + py as f64 + 2.0) / 65536.0 } else { 0.0 };
                    if let SrcSpec::Sweep { .. } = &c.src {
                        continue;
                    }
                    // the apex pixel of a two-circle gradient may legitimately be transparent (see above)
                    if let SrcSpec::TwoCircle { r1, r2, .. } = &c.src {
                        if (*r1 as f64) + (t - e) * (*r2 as f64 - *r1 as f64) < 0.0 {
                            continue;
                        }
                    }
                    if t < -4.0 / 255.0 - e {
                        if let Some((_, col)) = pad_lo {
                            if got[i] != col {
                                return Err(format!("Pad: pixels beyond the start (t < 0) must all show exactly the first stop colour, but ({},{}) is {} and another is {}", px, py, hex(got[i]), hex(col)));
                            }
                        }
                    }
                    if t > 1.0 + 4.0 / 255.0 + e {
                        if let Some((_, col)) = pad_hi {
                            if got[i] != col {
                                return Err(format!("Pad: pixels beyond the end (t > 1) must all show exactly the last stop colour, but ({},{}) is {} and another is {}", px, py, hex(got[i]), hex(col)));
                            }
                        }
                    }
                }
            }
        }
    }
    o.nontrivial = colours.len() >= 3 && tmax - tmin >= 0.25;
    o.class(c.src.kind());
    o.class(["spread:pad", "spread:repeat", "spread:reflect"][spread as usize]);
    o.class(classify_xf(&c.ctm));
    {
        let sc = (xf_det(&c.ctm).abs()).sqrt();
        o.class_if(sc >= 1000.0, "ctm-scale>=1000");
        o.class_if(sc <= 0.05, "ctm-scale<=1/20");
        let m = &c.ctm;
        let (rx, ry) = ((m[0] as f64).hypot(m[1] as f64), (m[2] as f64).hypot(m[3] as f64));
        o.class_if(rx.max(ry) >= 9.0 * rx.min(ry) && (m[4].abs() > 1000.0 || m[5].abs() > 1000.0), "anisotropic-ctm-far-from-the-user-origin");
    }
    o.class_if(tmin < 0.0, "t<0-seen");
    o.class_if(tmax > 1.0, "t>1-seen");
    o.class_if(a255 < 255.0, "alpha<1");
    o.class_if(c.w.max(c.h) >= 600, "long-strip-with-slowly-varying-linear-gradient");
    o.class_if(c.own.is_some(), "own-transform-in-the-variant");
    if let SrcSpec::Linear { x0, y0, x1, y1, .. } = &c.src {
        if c.own.is_none() && c.ctm == IDENT {
            let (dx, dy) = ((x1 - x0) as f64, (y1 - y0) as f64);
            let t0 = -(*x0 as f64 * dx + *y0 as f64 * dy) / (dx * dx + dy * dy);
            o.class_if(t0.abs() >= 256.0, "linear-gradient-starting-256-or-more-of-its-lengths-away");
        }
    }
    if let SrcSpec::TwoCircle { r1, .. } = &c.src {
        o.class_if(*r1 == 0.0, "twocircle:focal-point");
    }
    if let SrcSpec::TwoCircle { x1, y1, x2, y2, .. } = &c.src {
        o.class_if(x1 == x2 && y1 == y2, "twocircle:concentric");
        o.class_if((x1 == x2) != (y1 == y2), "twocircle:centres-share-one-coordinate");
    }
    if let SrcSpec::Linear { x0, y0, x1, y1, .. } = &c.src {
        o.class_if(y0 == y1 && x1 < x0, "linear:horizontal-right-to-left");
        o.class_if(y0 == y1 && x1 > x0, "linear:horizontal-left-to-right");
        o.class_if(x0 == x1, "linear:vertical");
    }
    Ok(o)
}

/// probe gradients: ramps that make t readable from the colour
fn probe_stops() -> BoxedStrategy<Vec<Stop>> {
    prop_oneof![
        Just(vec![Stop { pos: 0.0, color: 0xff00_0000 }, Stop { pos: 1.0, color: 0xffff_ffff }]),
        Just(vec![Stop { pos: 0.0, color: 0xffff_0000 }, Stop { pos: 1.0, color: 0xff00_00ff }]),
        Just(vec![Stop { pos: 0.0, color: 0xff00_0000 }, Stop { pos: 0.5, color: 0xffff_ffff }, Stop { pos: 1.0, color: 0xff00_0000 }]),
        Just(vec![Stop { pos: 0.25, color: 0xff00_ff00 }, Stop { pos: 0.75, color: 0x80ff_00ff }]),
        Just(vec![Stop { pos: 0.0, color: 0x0000_0000 }, Stop { pos: 1.0, color: 0xffff_ffff }]),
    ]
    .boxed()
}

pub fn strategy(ctx: &Ctx) -> BoxedStrategy<Case> {
    let ctx = ctx.clone();
    let alpha_open = ctx.excluded("C12-gradient-alpha-squared");
    // one case in thirty is a long strip (600..2048 px) carrying a linear gradient whose parameter changes very slowly
    // along it: a short gradient tilted a fraction of a degree off the strip's normal, or one 6000..11000 px long
    prop_oneof![29 => (4i32..=24, 4i32..=24), 1 => prop_oneof![(prop::sample::select(vec![600i32, 1000, 1500, 2048]), 1i32..=2), (1i32..=2, prop::sample::select(vec![600i32, 1000, 1500, 2048]))]]
        .prop_flat_map(move |(w, h)| {
            let ext = w.max(h) as f32;
            let src = (gradient_src(&ctx, ext), prop::option::weighted(0.4, probe_stops())).prop_map(|(mut g, probe)| {
                if let Some(p) = probe {
                    match &mut g {
                        SrcSpec::Linear { stops, .. } | SrcSpec::Radial { stops, .. } | SrcSpec::TwoCircle { stops, .. } | SrcSpec::Sweep { stops, .. } => *stops = p,
                        _ => {}
                    }
                }
                g
            });
            let src = if w.max(h) >= 600 {
                let horizontal = w > h;
                (src, prop_oneof![0.004f32..0.06, -0.06f32..-0.004], 8.0f32..40.0, any::<bool>(), 3000.0f32..3900.0, 3000.0f32..3900.0)
                    .prop_map(move |(g, eps, len, long, fa, fb)| {
                        let (stops, spread) = match &g {
                            SrcSpec::Linear { stops, spread, .. } | SrcSpec::Radial { stops, spread, .. } | SrcSpec::TwoCircle { stops, spread, .. } | SrcSpec::Sweep { stops, spread, .. } => (stops.clone(), *spread),
                            _ => unreachable!(),
                        };
                        if long {
                            // corner to corner of the working range
                            SrcSpec::Linear { stops, spread, x0: -fa, y0: -fb * 0.3, x1: fb, y1: fa * 0.3 }
                        } else if horizontal {
                            SrcSpec::Linear { stops, spread, x0: 5.0, y0: -len / 2.0, x1: 5.0 + eps, y1: len / 2.0 }
                        } else {
                            SrcSpec::Linear { stops, spread, x0: -len / 2.0, y0: 5.0, x1: len / 2.0, y1: 5.0 + eps }
                        }
                    })
                    .boxed()
            } else {
                src.boxed()
            };
            let alpha = if alpha_open { Just(1.0f32).boxed() } else { prop_oneof![3 => Just(1.0f32), 1 => Just(0.5f32), 2 => 0.0f32..=1.0].boxed() };
            // zoom: the same picture described in user units that are `zoom` times smaller under a CTM that is
            // `zoom` times larger (a drawing in metres shown at 1:4096, or in device-independent units at 1/64)
            let zoom = prop_oneof![10 => Just(1.0f32), 1 => Just(4096.0f32), 1 => Just(65536.0f32), 1 => Just(256.0f32), 1 => Just(1.0f32 / 64.0), 1 => Just(1.0f32 / 4096.0)];
            let own = prop_oneof![3 => Just(None), 1 => xf_invertible(4.0).prop_map(Some)];
            // anisotropic: one axis of user space stretched 10..40 times more than the other, looking at a place
            // thousands of user units from the user-space origin along the squeezed axis (a chart with very
            // different units on its axes, scrolled far)
            let aniso = prop::option::weighted(0.08, (prop::sample::select(vec![10.0f32, 16.0, 25.0, 40.0]), any::<bool>(), any::<bool>(), 0.0f32..1.0, 0.5f32..2.0));
            // periods away: a short linear gradient (1.5..6 px long) whose start lies 256..1200 of its own lengths from
            // the surface along its direction (a fine repeating or reflecting hatch anchored at a far corner of the
            // drawing), so that the parameter at the device origin is in the hundreds, of either sign and parity
            let periods = prop::option::weighted(0.1, (256i32..=1200, any::<bool>(), 1.5f32..6.0));
            (Just((w, h)), src, alpha, prop_oneof![2 => Just(IDENT), 3 => xf_invertible(6.0)], zoom, own, (aniso, periods))
        })
        .prop_map(|((w, h), mut src, alpha, mut ctm, mut z, mut own, (aniso, periods))| {
            if let (Some((n, neg, e)), true, SrcSpec::Linear { x0, y0, x1, y1, .. }) = (periods, w.max(h) < 600 && aniso.is_none(), &mut src) {
                let (dx, dy) = ((*x1 - *x0) as f64, (*y1 - *y0) as f64);
                let l = (dx * dx + dy * dy).sqrt();
                if l > 0.5 {
                    let (ux, uy) = (dx / l, dy / l);
                    // at most 3800 px away
                    let n = (n as f64).min((3800.0 / e as f64).floor()) * if neg { -1.0 } else { 1.0 };
                    *x0 = (*x0 as f64 + n * e as f64 * ux) as f32;
                    *y0 = (*y0 as f64 + n * e as f64 * uy) as f32;
                    *x1 = (*x0 as f64 + e as f64 * ux) as f32;
                    *y1 = (*y0 as f64 + e as f64 * uy) as f32;
                    ctm = IDENT;
                    z = 1.0;
                    own = None;
                }
            }
            if let Some((r, x_stretched, neg, f, k)) = aniso {
                // user -> device: scale (k r, k) or (k, k r), then a translation that brings the far place back.
                // The place is `d` device pixels from the user-space origin (d <= 3900: inside the working range)
                // along the axis that is *not* stretched, i.e. d / k user units
                let k = k.max(1.0);
                let lo = (34000.0 / r).max(1000.0);
                let d = (lo + f * (3900.0 - lo)) * if neg { -1.0 } else { 1.0 };
                let (sx, sy) = if x_stretched { (k * r, k) } else { (k, k * r) };
                let (ux, uy) = if x_stretched { (0.0, d / k) } else { (d / k, 0.0) };
                ctm = [sx, 0.0, 0.0, sy, -ux * sx, -uy * sy];
                // the generated gradient (user units around the origin) moves to that place, shape unchanged
                let mv = |x: &mut f32, y: &mut f32| {
                    *x += ux;
                    *y += uy;
                };
                match &mut src {
                    SrcSpec::Linear { x0, y0, x1, y1, .. } => {
                        mv(x0, y0);
                        mv(x1, y1);
                    }
                    SrcSpec::Radial { cx, cy, .. } | SrcSpec::Sweep { cx, cy, .. } => mv(cx, cy),
                    SrcSpec::TwoCircle { x1, y1, x2, y2, .. } => {
                        mv(x1, y1);
                        mv(x2, y2);
                    }
                    _ => {}
                }
                z = 1.0;
                own = None;
            }
            if z != 1.0 {
                // (the own transform maps zoomed user units to zoomed gradient units: its translation shrinks too)
                if let Some(e) = own.as_mut() {
                    e[4] /= z;
                    e[5] /= z;
                }
                match &mut src {
                    SrcSpec::Linear { x0, y0, x1, y1, .. } => {
                        for v in [x0, y0, x1, y1] {
                            *v /= z;
                        }
                    }
                    SrcSpec::Radial { cx, cy, r, .. } => {
                        for v in [cx, cy, r] {
                            *v /= z;
                        }
                    }
                    SrcSpec::TwoCircle { x1, y1, r1, x2, y2, r2, .. } => {
                        for v in [x1, y1, r1, x2, y2, r2] {
                            *v /= z;
                        }
                    }
                    SrcSpec::Sweep { cx, cy, .. } => {
                        for v in [cx, cy] {
                            *v /= z;
                        }
                    }
                    _ => {}
                }
                for v in ctm.iter_mut().take(4) {
                    *v *= z;
                }
            }
            Case { w, h, src, alpha, ctm, own }
        })
        .boxed()
}

pub fn property(ctx: &Ctx) -> Property {
    let c = ctx.clone();
    let drift_open = ctx.excluded(DRIFT_KEY);
    Property {
        id: "C12",
        rule: "cases: linear (extent >= 1 px), radial (r >= 1), two-circle (first circle strictly inside the second) and sweep gradients built with the Source::new_* constructors, a quarter of them with a further invertible transform of their own composed into the public Source variant by hand (elliptical radial gradients, sheared sweeps; the oracle maps the pixel centre through the inverse CTM and then through that transform); 1-5 stops at strictly increasing positions (gaps >= 0.02, ends not necessarily 0/1) with random unpremultiplied colours or probe ramps; Pad/Repeat/Reflect; global alpha; one linear gradient in ten only 1.5..6 px long and starting 256..1200 of its own lengths (at most 3800 px) from the surface, so that the parameter on the surface is in the hundreds; identity or any invertible CTM (one in twelve anisotropic, one axis stretched 10..40 times more than the other, looking at a place 1000..3900 device px from the user-space origin along the other axis), optionally with user space zoomed (units 256, 4096 or 65536 times smaller, or 64 times larger, under a correspondingly scaled CTM); 4..24 px surfaces, rendered with a full-surface Src fill (in half of the cases after an empty layer group or a clear under a clip that come between set_transform and the draw; and again, Src and SrcOver, through a pixel-aligned clip path that cuts off the first columns: same colours inside, nothing outside; and once more with SrcOver into a layer group pushed under an offset clip rectangle, whose origin differs from the surface's). Oracle: f64 parameter t per pixel centre (through the inverse CTM) by the statement's definitions, colour = piecewise-linear interpolation of the unpremultiplied stops after the spread map, premultiplied and scaled by alpha; every channel must lie within 4/255 of the range that colour takes for t within 3/255 (+|t|/255 for two-circle and sweep) of the pixel's t; Pad pixels beyond an end all show one identical colour; two-circle pixels without admissible circle are transparent. Non-trivial: >=3 distinct colours on the surface and t spanning >= 0.25; distinct by hash of the case.",
        assumptions: vec!["sweep pixels within 1.5 px of the centre or within 0.75 px of the angle-0 ray are not judged (angle discontinuity inside the pixel)"],
        parts: vec![part("render", 60_000, 1_000_000, move || strategy(&c), move |k| check_with(k, drift_open))],
        min_class_fraction: vec![("render", "src:linear", 0.15), ("render", "src:radial", 0.15), ("render", "src:twocircle", 0.15), ("render", "src:sweep", 0.15), ("render", "spread:reflect", 0.2), ("render", "t>1-seen", 0.3), ("render", "t<0-seen", 0.1), ("render", "linear:horizontal-right-to-left", 0.005), ("render", "linear:vertical", 0.01), ("render", "twocircle:focal-point", 0.02), ("render", "twocircle:centres-share-one-coordinate", 0.03), ("render", "ctm-scale>=1000", 0.05), ("render", "own-transform-in-the-variant", 0.1), ("render", "anisotropic-ctm-far-from-the-user-origin", 0.04), ("render", "linear-gradient-starting-256-or-more-of-its-lengths-away", 0.01)],
        panic_is_violation: false,
    }
}
