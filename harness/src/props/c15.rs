//! C15 — surface copies and blends place exactly the requested block.

use crate::gen::*;
use crate::runner::*;
use crate::scene::*;
use proptest::prelude::*;
use raqote::*;
use serde::{Deserialize, Serialize};

#[derive(Clone, Debug, Serialize, Deserialize)]
pub struct Case {
    pub sw: i32,
    pub sh: i32,
    pub dw: i32,
    pub dh: i32,
    pub src: Vec<u32>,
    pub dst: Vec<u32>,
    /// x1,y1,x2,y2
    pub rect: [i32; 4],
    pub at: [i32; 2],
    /// 0 copy, 1 blend(mode), 2 alpha
    pub kind: u8,
    pub mode: u8,
    pub alpha: f32,
    /// state that must be ignored: transform, clip rect, open layer
    pub xf: Option<Xf>,
    pub clip: Option<[i32; 4]>,
    pub layer: bool,
    /// a clip rectangle left pushed on the *source* surface (to be ignored as well)
    #[serde(default)]
    pub src_clip: Option<[i32; 4]>,
}

fn tagged(w: i32, h: i32, base: u32) -> Vec<u32> {
    let mut v = Vec::with_capacity((w * h) as usize);
    for y in 0..h {
        for x in 0..w {
            v.push(base | (((x + 1) as u32) << 8) | (y + 1) as u32);
        }
    }
    v
}

pub fn model(c: &Case) -> Vec<u32> {
    let mut out = c.dst.clone();
    let [x1, y1, x2, y2] = c.rect;
    let a = (c.alpha * 255.0 + 0.5) as u8 as u32;
    for y in 0..c.dh {
        for x in 0..c.dw {
            let (i, j) = (x as i64 - c.at[0] as i64, y as i64 - c.at[1] as i64);
            let (sx, sy) = (x1 as i64 + i, y1 as i64 + j);
            let in_rect = sx >= x1 as i64 && sx < x2 as i64 && sy >= y1 as i64 && sy < y2 as i64;
            let in_src = sx >= 0 && sx < c.sw as i64 && sy >= 0 && sy < c.sh as i64;
            if in_rect && in_src {
                let s = c.src[(sy * c.sw as i64 + sx) as usize];
                let d = &mut out[(y * c.dw + x) as usize];
                *d = match c.kind {
                    0 => s,
                    1 => blend_px(c.mode, s, *d),
                    _ => sw_composite::over_in(s, *d, a),
                };
            }
        }
    }
    out
}

pub fn run_impl(c: &Case) -> Vec<u32> {
    let mut src = DrawTarget::from_vec(c.sw, c.sh, c.src.clone());
    if let Some(r) = &c.src_clip {
        src.push_clip_rect(irect(r[0], r[1], r[2], r[3]));
        src.set_transform(&Transform::translation(3.0, -2.0));
    }
    let mut dt = DrawTarget::from_vec(c.dw, c.dh, c.dst.clone());
    if let Some(x) = &c.xf {
        dt.set_transform(&to_transform(x));
    }
    if let Some(r) = &c.clip {
        dt.push_clip_rect(irect(r[0], r[1], r[2], r[3]));
    }
    if c.layer {
        dt.push_layer(1.0);
    }
    let r = irect(c.rect[0], c.rect[1], c.rect[2], c.rect[3]);
    let at = IntPoint::new(c.at[0], c.at[1]);
    match c.kind {
        0 => dt.copy_surface(&src, r, at),
        1 => dt.blend_surface(&src, r, at, BLEND_MODES[c.mode as usize]),
        _ => dt.blend_surface_with_alpha(&src, r, at, c.alpha),
    }
    if c.layer {
        dt.pop_layer();
    }
    dt.get_data().to_vec()
}

pub fn check(c: &Case) -> CheckResult {
    let want = model(c);
    let got = run_impl(c);
    let mut o = Outcome::new();
    o.fp = fp_of(&(c.sw, c.sh, c.dw, c.dh, c.rect, c.at, c.kind, c.mode));
    let mut moved = 0;
    for i in 0..want.len() {
        if got[i] != want[i] {
            let (x, y) = (i as i32 % c.dw, i as i32 / c.dw);
            return Err(format!(
                "destination pixel ({},{}) is {} but block-transfer model says {} (was {}): src {}x{} rect {:?} at {:?} kind {}",
                x,
                y,
                hex(got[i]),
                hex(want[i]),
                hex(c.dst[i]),
                c.sw,
                c.sh,
                c.rect,
                c.at,
                c.kind
            ));
        }
        if want[i] != c.dst[i] {
            moved += 1;
        }
    }
    o.judged = want.len() as u64;
    // region of the transfer (independent of pixel values)
    let [x1, y1, x2, y2] = c.rect;
    let cx1 = x1.max(0);
    let cy1 = y1.max(0);
    let cx2 = x2.min(c.sw);
    let cy2 = y2.min(c.sh);
    let nonempty_src = cx1 < cx2 && cy1 < cy2;
    let mut region = 0;
    if nonempty_src {
        let dx1 = (c.at[0] as i64 + (cx1 as i64 - x1 as i64)).max(0);
        let dy1 = (c.at[1] as i64 + (cy1 as i64 - y1 as i64)).max(0);
        let dx2 = (c.at[0] as i64 + (cx2 as i64 - x1 as i64)).min(c.dw as i64);
        let dy2 = (c.at[1] as i64 + (cy2 as i64 - y1 as i64)).min(c.dh as i64);
        if dx1 < dx2 && dy1 < dy2 {
            region = (dx2 - dx1) * (dy2 - dy1);
        }
    }
    let full = (x2 as i128 - x1 as i128).max(0) * (y2 as i128 - y1 as i128).max(0);
    let partial = region > 0 && (region as i128) < full;
    o.nontrivial = region > 0 && ((x1, y1) != (0, 0) || partial);
    o.class_if(region > 0, "transfer-nonempty");
    if nonempty_src {
        let dx1 = (c.at[0] as i64 + (cx1 as i64 - x1 as i64)).max(0);
        let dx2 = (c.at[0] as i64 + (cx2 as i64 - x1 as i64)).min(c.dw as i64);
        let wdt = dx2 - dx1;
        o.class_if(region > 0 && wdt >= 512 && (wdt & (wdt - 1)) == 0, "row-of-exactly-512-1024-2048-or-4096-pixels");
        o.class_if(region > 0 && wdt > 2048, "row-longer-than-2048-pixels");
    }
    o.class_if(region > 0 && (x1, y1) != (0, 0), "src-rect-origin-nonzero");
    o.class_if(partial, "partially-clipped");
    o.class_if(x2 < x1 || y2 < y1, "inverted-rect");
    o.class_if(c.at[0] < 0 || c.at[1] < 0, "negative-dst");
    o.class_if(c.sw == 0 || c.sh == 0 || c.dw == 0 || c.dh == 0, "zero-sized-surface");
    o.class_if(c.kind == 1, "blend_surface");
    o.class_if(region > 0 && ((x2 as i64 - x1 as i64) > i32::MAX as i64 / 2 || (y2 as i64 - y1 as i64) > i32::MAX as i64 / 2), "transfer-through-a-rect-spanning-billions");
    o.class_if(c.kind == 2, "blend_surface_with_alpha");
    o.class_if(c.xf.is_some() || c.clip.is_some() || c.layer, "state-to-ignore-set");
    o.class_if(c.xf.map_or(false, |x| xf_det(&x) == 0.0) && region > 0, "transfer-under-a-singular-transform");
    o.class_if(c.src_clip.is_some(), "clip-and-transform-set-on-the-source");
    let _ = moved;
    Ok(o)
}

/// exhaustive grid for copy_surface
fn decode(tier: Tier, mut i: u64) -> Case {
    let (smax, lo, hi, dlo, dhi) = match tier {
        Tier::Quick => (2i32, -1i32, 3i32, -2i32, 3i32),
        Tier::Thorough => (3, -1, 4, -2, 4),
    };
    let ns = (smax + 1) as u64;
    let nc = (hi - lo + 1) as u64;
    let nd = (dhi - dlo + 1) as u64;
    let mut take = |n: u64| -> i32 {
        let v = (i % n) as i32;
        i /= n;
        v
    };
    let ay = take(nd) + dlo;
    let ax = take(nd) + dlo;
    let y2 = take(nc) + lo;
    let x2 = take(nc) + lo;
    let y1 = take(nc) + lo;
    let x1 = take(nc) + lo;
    let dh = take(ns);
    let dw = take(ns);
    let sh = take(ns);
    let sw = take(ns);
    Case {
        sw,
        sh,
        dw,
        dh,
        src: tagged(sw, sh, 0xff11_0000),
        dst: tagged(dw, dh, 0x8022_0000),
        rect: [x1, y1, x2, y2],
        at: [ax, ay],
        kind: 0,
        mode: 0,
        alpha: 1.0,
        xf: None,
        clip: None,
        layer: false,
        src_clip: None,
    }
}

pub fn grid_size(tier: Tier) -> u64 {
    match tier {
        Tier::Quick => 3 * 3 * 3 * 3 * 5 * 5 * 5 * 5 * 6 * 6,
        Tier::Thorough => 4 * 4 * 4 * 4 * 6 * 6 * 6 * 6 * 7 * 7,
    }
}

fn wild() -> BoxedStrategy<i32> {
    prop_oneof![
        3 => -100i32..=100,
        1 => prop::sample::select(vec![-1_000_000i32, 1_000_000, -70_000, 70_000]),
        // the extremes of the coordinate type (sums and differences of such values overflow i32)
        1 => prop::sample::select(vec![i32::MAX, -i32::MAX, 2_000_000_000, -2_000_000_000, 1_500_000_000, -1_000_000_000, 999_999_999]),
    ]
    .boxed()
}

/// (x1, x2, a): source interval [x1,x2) and destination coordinate a such that, for source extent n and
/// destination extent d (both >= 1), the transferred block is non-empty by construction (8 of 10),
/// otherwise near-miss / empty / inverted / wild values
fn axis(n: i32, d: i32) -> BoxedStrategy<(i32, i32, i32)> {
    if n < 1 || d < 1 {
        return (-2..=3, -2..=3, -2..=3).boxed();
    }
    let constructed = (-2..=n - 1)
        .prop_flat_map(move |x1| (Just(x1), (x1.max(0) + 1)..=(n + 2)))
        .prop_flat_map(move |(x1, x2)| {
            let c1 = x1.max(0);
            let c2 = x2.min(n);
            // t = destination coordinate of the first transferred source pixel
            (Just(x1), Just(x2), (-(c2 - c1) + 1)..=(d - 1)).prop_map(move |(x1, x2, t)| (x1, x2, t - (c1 - x1)))
        });
    prop_oneof![
        16 => constructed,
        2 => (-2..=n + 2, -2..=n + 2, -3..=d + 3),
        2 => (wild(), wild(), wild()),
        // "the whole source, whatever its size": an interval ending at i32::MAX, or spanning billions, whose
        // in-source part still lands on the destination
        1 => (0..=d - 1).prop_map(|a| (0, i32::MAX, a)),
        1 => (0..=d - 1).prop_map(|a| (-1_000_000_000, 1_500_000_000, a - 1_000_000_000)),
    ]
    .boxed()
}

pub fn strategy() -> BoxedStrategy<Case> {
    let dim = || prop_oneof![4 => Just(0i32), 32 => 1i32..=6, 4 => 1i32..=40, 1 => 257i32..=300];
    (dim(), dim(), dim(), dim())
        .prop_flat_map(|(sw, sh, dw, dh)| (Just((sw, sh, dw, dh)), axis(sw, dw), axis(sh, dh)))
        .prop_flat_map(|((sw, sh, dw, dh), rx, ry)| {
            let m = sw.max(sh).max(dw).max(dh);
            (
                Just((sw, sh, dw, dh)),
                pixels((sw * sh) as usize, 0),
                pixels((dw * dh) as usize, 0),
                Just((rx.0, ry.0, rx.1, ry.1)),
                Just((rx.2, ry.2)),
                0u8..3,
                blend_any(),
                prop_oneof![Just(1.0f32), Just(0.0f32), 0.0f32..=1.0],
                prop::option::weighted(0.3, prop_oneof![3 => xf_invertible(5.0), 1 => xf_singular()]),
                // the clip rect (to be ignored) stays near the surface: a layer is pushed under it, and layer
                // allocation under far-away clip rects is C06/C07's subject, not this property's
                prop::option::weighted(0.3, (-3..=m + 3, -3..=m + 3, -3..=m + 3, -3..=m + 3)),
                prop::bool::weighted(0.2),
                prop::option::weighted(0.2, (-2..=m + 2, -2..=m + 2, -2..=m + 6, -2..=m + 6)),
            )
        })
        .prop_map(|((sw, sh, dw, dh), src, dst, (a, b, c, d), (ax, ay), kind, mode, alpha, xf, clip, layer, sclip)| Case {
            sw,
            sh,
            dw,
            dh,
            src,
            dst,
            rect: [a, b, c, d],
            at: [ax, ay],
            kind,
            mode,
            alpha,
            xf,
            clip: clip.map(|(a, b, c, d)| [a.min(c), b.min(d), a.max(c), b.max(d)]),
            layer,
            src_clip: sclip.map(|(a, b, c, d)| [a.min(c), b.min(d), a.max(c), b.max(d)]),
        })
        .boxed()
}


/// long rows: blocks whose width after clipping is a power of two between 512 and 4096 or next to one (row-wise
/// transfers done in pieces of a fixed size show their seams there), on surfaces 1..3 rows high
pub fn wide_strategy() -> BoxedStrategy<Case> {
    let fam = prop::sample::select(vec![511i32, 512, 513, 1023, 1024, 1025, 2047, 2048, 2049, 3000, 4095, 4096, 4097]);
    (fam, 0i32..=40, 0i32..=40, 1i32..=3, 1i32..=3, 0u8..4)
        .prop_flat_map(|(wd, es, ed, sh, dh, how)| {
            // how: 0 block inside both surfaces; 1 src_rect wider than the source (clipped to its width wd);
            // 2 block cut by the destination's right edge to wd columns; 3 whole surfaces of width wd
            let (sw, dw) = match how {
                1 => (wd, wd + ed),
                2 => (wd + es, wd),
                3 => (wd, wd),
                _ => (wd + es, wd + ed),
            };
            (Just((wd, sw, sh, dw, dh, how)), 0..=(sw - wd), 0..=(dw - wd), pixels((sw * sh) as usize, 0), pixels((dw * dh) as usize, 0), 0u8..3, blend_any(), prop_oneof![Just(1.0f32), 0.0f32..=1.0], -1i32..=1, -1i32..=1)
        })
        .prop_map(|((wd, sw, sh, dw, dh, how), sx, dx, src, dst, kind, mode, alpha, y0, dy)| {
            let (rect, at) = match how {
                1 => ([-5, y0, sw + 7, sh], [dx - 5, dy]),
                2 => ([sx, y0, sw, sh], [0, dy]),
                3 => ([0, 0, sw, sh], [0, 0]),
                _ => ([sx, y0, sx + wd, sh], [dx, dy]),
            };
            Case { sw, sh, dw, dh, src, dst, rect, at, kind, mode, alpha, xf: None, clip: None, layer: false, src_clip: None }
        })
        .boxed()
}

pub fn property(_ctx: &Ctx) -> Property {
    Property {
        id: "C15",
        rule: "part grid: exhaustive enumeration of copy_surface over source and destination sizes (0..=2)^2 [thorough (0..=3)^2], src_rect corners in [-1,3]^4 [[-1,4]^4] (so empty and inverted rects occur), dst in [-2,3]^2 [[-2,4]^2], position-tagged pixels. part random: proptest over sizes 257..300 (one dimension in forty) and 0..40, rect/dst coordinates near, +-100 and +-10^6, copy/blend_surface(28 modes)/blend_surface_with_alpha with random premultiplied pixels, with a random transform, clip rect and open layer set (must be ignored). part wide: surfaces 1..3 rows high and 511..4137 px wide, blocks whose width after clipping is 512, 1024, 2048 or 4096 or next to one of them (inside both surfaces, clipped by the source, cut by the destination, whole surfaces). Oracle: block-transfer model (source pixel src_rect.min+(i,j) -> dst+(i,j), limited to src_rect within the source and to the destination). Non-trivial: transfer region non-empty and (src_rect.min != (0,0) or region partially clipped); distinct by (sizes, rect, dst, kind, mode).",
        assumptions: vec!["blend formulas are sw_composite's public per-pixel functions (blend::*, over_in)", "exhaustive applies to the 'grid' part only"],
        parts: vec![
            enum_part("grid", grid_size(Tier::Quick), grid_size(Tier::Thorough), decode, check),
            part("random", 200_000, 5_000_000, strategy, check),
            part("wide", 1_500, 40_000, wide_strategy, check),
        ],
        min_class_fraction: vec![("random", "src-rect-origin-nonzero", 0.25), ("random", "partially-clipped", 0.25), ("random", "transfer-nonempty", 0.4), ("random", "clip-and-transform-set-on-the-source", 0.1), ("wide", "row-of-exactly-512-1024-2048-or-4096-pixels", 0.2)],
        panic_is_violation: true,
    }
}
