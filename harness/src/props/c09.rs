//! C09 — dashes follow the dash pattern along arc length, restarted per subpath.

use crate::gen::*;
use crate::geom::*;
use crate::runner::*;
use crate::scene::*;
use crate::stroke_model::*;
use proptest::prelude::*;
use raqote::*;
use serde::{Deserialize, Serialize};

#[derive(Clone, Debug, Serialize, Deserialize)]
pub struct Case {
    pub w: i32,
    pub h: i32,
    /// polylines only (move/line/close)
    pub path: PathSpec,
    pub style: StyleSpec,
    pub xf: Xf,
    /// aligned class: integer lengths and dashes, so that dash boundaries land exactly on vertices
    pub aligned: bool,
}

/// one "on" piece of the model: a polyline (open, or closed when the pattern is on over a whole closed subpath)
#[derive(Clone, Debug)]
pub struct DashPiece {
    pub poly: Poly,
    /// arc-length interval(s) it covers on its subpath
    pub len: f64,
}

pub struct DashModel {
    pub pieces: Vec<DashPiece>,
    /// some dash boundary lies within 1e-3 of a vertex (whether a corner is turned is then a rounding matter)
    pub boundary_near_vertex: bool,
    pub total_on: f64,
    pub features: Vec<&'static str>,
}

/// f64 arc-length dasher written from the statement.  Returns None when the array's total is not positive (or NaN).
pub fn dash_model(polys: &[Poly], dashes: &[f32], offset: f32) -> Option<DashModel> {
    let mut d: Vec<f64> = dashes.iter().map(|v| *v as f64).collect();
    if d.len() % 2 == 1 {
        let c = d.clone();
        d.extend(c);
    }
    let period: f64 = d.iter().sum();
    if !(period > 0.0) || !period.is_finite() {
        return None;
    }
    let s0 = (offset as f64).rem_euclid(period);
    // The library adds the entries and reduces the offset in f32: the phase it starts from differs from the
    // f64 phase by up to (offset / period) x (rounding of the period), about 1e-3 at an offset of 10^4.
    // A dash boundary closer than that to a vertex or to an end of a subpath is a coincidence whose outcome
    // (is there a sliver of a piece, with its caps, or not?) rounding decides.  (Offsets beyond 2e4 come with
    // exactly representable periods, see the generator.)
    let near0 = 1e-3 + 4e-7 * (offset.abs() as f64).min(2.0e4);
    // phase -> (on?, distance to the end of the current entry)
    let state_at = |phase: f64| -> (usize, f64) {
        let mut p = phase.rem_euclid(period);
        for (i, e) in d.iter().enumerate() {
            if p < *e {
                return (i, *e - p);
            }
            p -= *e;
        }
        (d.len() - 1, 0.0)
    };
    let mut m = DashModel { pieces: vec![], boundary_near_vertex: false, total_on: 0.0, features: vec![] };
    for poly in polys {
        let n = poly.pts.len();
        if n < 2 {
            continue;
        }
        // vertices with cumulative arc length (closing segment included for closed subpaths)
        let mut pts: Vec<P> = poly.pts.clone();
        if poly.closed {
            pts.push(poly.pts[0]);
        }
        let mut cum = vec![0.0f64];
        for i in 1..pts.len() {
            let l = dist(pts[i], pts[i - 1]);
            cum.push(cum[i - 1] + l);
        }
        let total = *cum.last().unwrap();
        if total == 0.0 {
            continue;
        }
        // the library walks a segment by subtracting one dash after the other from its remaining length in f32:
        // the phase drifts by up to half an ulp of that length per dash, which adds up to hundredths of a pixel
        // on subpaths that carry hundreds of dashes
        let mag = pts.iter().fold(1.0f64, |m, q| m.max(q.0.abs()).max(q.1.abs())).max(total / (pts.len() as f64));
        let n_est = total / (period / d.len() as f64);
        let near = near0 + n_est * 1.2e-7 * mag;
        // a dash boundary that coincides with the subpath's start (or, for a closed subpath, its end) is a
        // float coincidence too: whether "a new dash starts exactly here" is a rounding matter
        {
            let (i0, r0) = state_at(s0);
            if r0 < near || d[i0] - r0 < near {
                m.boundary_near_vertex = true;
            }
            // the end of the subpath (open or closed): a boundary just before or after it makes or omits a sliver
            let (i1, r1) = state_at(s0 + total);
            if r1 < near || d[i1] - r1 < near {
                m.boundary_near_vertex = true;
            }
        }
        // on-intervals in arc length
        let mut intervals: Vec<(f64, f64)> = Vec::new();
        let mut s = 0.0f64;
        let (mut idx, mut rem) = state_at(s0);
        let mut guard = 0;
        while s < total && guard < 200_000 {
            guard += 1;
            let e = (s + rem).min(total);
            if idx % 2 == 0 && e > s {
                intervals.push((s, e));
            }
            if s + rem >= total {
                break;
            }
            s = e;
            idx = (idx + 1) % d.len();
            rem = d[idx];
        }
        if guard >= 200_000 {
            return None;
        }
        // merge touching intervals (zero-length gaps cannot occur with positive entries, but be safe)
        let point_at = |sv: f64| -> P {
            let mut i = 1;
            while i < cum.len() - 1 && cum[i] < sv {
                i += 1;
            }
            let l = cum[i] - cum[i - 1];
            let t = if l > 0.0 { (sv - cum[i - 1]) / l } else { 0.0 };
            add(mul(pts[i - 1], 1.0 - t), mul(pts[i], t))
        };
        let piece_pts = |a: f64, b: f64| -> Vec<P> {
            let mut v = vec![point_at(a)];
            for i in 1..cum.len() - 1 {
                if cum[i] > a + 1e-12 && cum[i] < b - 1e-12 {
                    v.push(pts[i]);
                }
            }
            if b >= total - 1e-12 {
                // reaches the end vertex
                v.push(pts[pts.len() - 1]);
            } else {
                v.push(point_at(b));
            }
            v.dedup();
            v
        };
        for (a, b) in &intervals {
            for c in &cum[1..cum.len() - 1] {
                if (a - c).abs() < near || (b - c).abs() < near {
                    m.boundary_near_vertex = true;
                }
            }
            if (a - 0.0).abs() < near && *a > 0.0 || (b - total).abs() < near && *b < total || (total - a) < near || *b < near {
                m.boundary_near_vertex = true;
            }
        }
        if intervals.len() >= 2 {
            m.features.push("multi-dash");
        }
        if intervals.iter().any(|(a, b)| cum[1..cum.len() - 1].iter().any(|c| *c > a + 1e-3 && *c < b - 1e-3)) {
            m.features.push("dash-spans-corner");
        }
        if d.iter().any(|e| *e > total) {
            m.features.push("dash-longer-than-subpath");
        }
        let whole = intervals.len() == 1 && intervals[0].0 == 0.0 && intervals[0].1 >= total;
        if poly.closed && whole {
            m.pieces.push(DashPiece { poly: Poly { pts: poly.pts.clone(), closed: true }, len: total });
            m.total_on += total;
            m.features.push("closed-all-on");
            continue;
        }
        let mut pcs: Vec<(Vec<P>, f64)> = intervals.iter().map(|(a, b)| (piece_pts(*a, *b), b - a)).collect();
        if poly.closed && pcs.len() >= 2 {
            let first_starts = intervals[0].0 == 0.0;
            let last_ends = intervals[intervals.len() - 1].1 >= total;
            if first_starts && last_ends {
                // the piece reaching the end is joined to the piece starting at the beginning
                let (mut last, ll) = pcs.pop().unwrap();
                let (first, fl) = pcs.remove(0);
                last.extend(first.into_iter().skip(1));
                pcs.push((last, ll + fl));
                m.features.push("closed-end-joined-to-start");
            }
            if intervals.iter().any(|(a, _)| *a > cum[cum.len() - 2]) || intervals.iter().any(|(_, b)| *b > cum[cum.len() - 2] && *b < total) {
                m.features.push("dash-boundary-on-closing-segment");
            }
        }
        for (p, l) in pcs {
            m.total_on += l;
            if p.len() >= 2 {
                m.pieces.push(DashPiece { poly: Poly { pts: p, closed: false }, len: l });
            }
        }
    }
    Some(m)
}

/// raqote's dasher output split into pieces
fn output_pieces(p: &Path) -> Vec<(Vec<P>, bool)> {
    let mut out: Vec<(Vec<P>, bool)> = Vec::new();
    for op in &p.ops {
        match op {
            PathOp::MoveTo(q) => out.push((vec![(q.x as f64, q.y as f64)], false)),
            PathOp::LineTo(q) => {
                if out.is_empty() {
                    out.push((vec![], false));
                }
                out.last_mut().unwrap().0.push((q.x as f64, q.y as f64));
            }
            PathOp::Close => {
                if let Some(l) = out.last_mut() {
                    l.1 = true;
                }
            }
            _ => {}
        }
    }
    out
}

fn poly_len(p: &[P], closed: bool) -> f64 {
    let mut l = 0.0;
    for i in 1..p.len() {
        l += dist(p[i], p[i - 1]);
    }
    if closed && p.len() >= 2 {
        l += dist(p[p.len() - 1], p[0]);
    }
    l
}

fn dist_to_polys(q: P, polys: &[Poly]) -> f64 {
    let mut d = f64::INFINITY;
    for poly in polys {
        let n = poly.pts.len();
        let m = if poly.closed { n } else { n - 1 };
        for i in 0..m {
            d = d.min(dist_point_seg(q, poly.pts[i], poly.pts[(i + 1) % n]));
        }
    }
    d
}

pub fn check(c: &Case, seams_open: bool) -> CheckResult {
    let mut o = Outcome::new();
    o.fp = fp_of(c);
    let path = c.path.build();
    let style = c.style.build();
    let polys = polylines(&c.path, 1e-3);
    let dashes: Vec<f32> = style.dash_array.clone();
    let model = dash_model(&polys, &dashes, style.dash_offset);
    // ---- (a) the dasher's own output, through the cfg(raqote_verif) hook
    let dashed = raqote::verif::dash_path(&path.flatten(0.1), &dashes, style.dash_offset);
    let out = output_pieces(&dashed);
    let scale = polys.iter().flat_map(|p| p.pts.iter()).fold(1.0f64, |m, q| m.max(q.0.abs()).max(q.1.abs()));
    // (f32 remainder is exact, so the offset's magnitude does not enter the tolerance; the model uses the
    // same f32 offset value)
    // (each dash boundary is placed relative to the previous one in f32: the drift grows by about an ulp of the
    // coordinates per dash, which matters once a subpath carries hundreds of dashes)
    let n_out = dashed.ops.len() as f64;
    let tol = 2e-3 + 1e-5 * scale + n_out * 2.4e-7 * scale;
    let Some(model) = model else {
        // a dash array whose total is not positive paints nothing
        if out.iter().any(|(p, _)| p.len() >= 2 && poly_len(p, false) > 0.0) {
            return Err(format!("dash array {:?} has a non-positive (or NaN) total but the dasher emitted segments", dashes));
        }
        let mut dt = blank_target(c.w, c.h);
        dt.set_transform(&to_transform(&c.xf));
        dt.stroke(&path, &Source::Solid(SolidSource { r: 255, g: 255, b: 255, a: 255 }), &style, &DrawOptions::new());
        if dt.get_data().iter().any(|p| *p != 0) {
            return Err(format!("dash array {:?} has a non-positive (or NaN) total but the dashed stroke painted pixels", dashes));
        }
        o.class("rejected-array");
        o.judged = 1;
        return Ok(o);
    };
    let mut on_len = 0.0;
    for (p, closed) in &out {
        for q in p {
            let d = dist_to_polys(*q, &polys);
            if d > tol {
                return Err(format!("dasher output vertex {:?} is {} away from the input path (dash {:?}, offset {})", q, d, dashes, style.dash_offset));
            }
        }
        on_len += poly_len(p, *closed);
    }
    if (on_len - model.total_on).abs() > 1e-3 * model.total_on.max(1.0) + 4.0 * tol {
        return Err(format!(
            "total 'on' length of the dasher output is {} but the arc-length model gives {} (dash {:?}, offset {}, {} pieces vs {} model pieces)",
            on_len,
            model.total_on,
            dashes,
            style.dash_offset,
            out.iter().filter(|(p, _)| p.len() >= 2).count(),
            model.pieces.len()
        ));
    }
    o.judged += out.len() as u64 + 1;
    // closed subpath that is 'on' throughout: the complete closed outline
    for mp in &model.pieces {
        if mp.poly.closed && !model.boundary_near_vertex {
            let found = out.iter().any(|(p, closed)| *closed && p.len() >= mp.poly.pts.len() && (poly_len(p, true) - mp.len).abs() < 1e-3 * mp.len + 4.0 * tol);
            if !found {
                return Err(format!("the dash pattern is 'on' over the whole closed subpath of length {} but the dasher did not emit it as one closed outline (dash {:?}, offset {})", mp.len, dashes, style.dash_offset));
            }
        }
    }
    if !model.boundary_near_vertex {
        // generic class: every model piece appears in the output with the same end points and length
        let real: Vec<&(Vec<P>, bool)> = out.iter().filter(|(p, _)| p.len() >= 2 && poly_len(p, false) > tol).collect();
        for mp in model.pieces.iter().filter(|m| !m.poly.closed) {
            let (a, b) = (mp.poly.pts[0], mp.poly.pts[mp.poly.pts.len() - 1]);
            let found = real.iter().any(|(p, closed)| !*closed && dist(p[0], a) < 4.0 * tol && dist(p[p.len() - 1], b) < 4.0 * tol && (poly_len(p, false) - mp.len).abs() < 1e-3 * mp.len + 8.0 * tol);
            if !found && mp.len > 8.0 * tol {
                return Err(format!(
                    "the arc-length model has an 'on' piece from {:?} to {:?} (length {:.4}) that the dasher output lacks as one connected piece (dash {:?}, offset {}); output pieces: {:?}",
                    a,
                    b,
                    mp.len,
                    dashes,
                    style.dash_offset,
                    real.iter().map(|(p, c)| (p[0], p[p.len() - 1], *c)).collect::<Vec<_>>()
                ));
            }
        }
        let n_model = model.pieces.iter().filter(|m| m.len > 8.0 * tol).count();
        if real.len() > n_model + model.pieces.iter().filter(|m| m.len <= 8.0 * tol).count() {
            return Err(format!("the dasher emitted {} pieces, the arc-length model has {} (dash {:?}, offset {})", real.len(), model.pieces.len(), dashes, style.dash_offset));
        }
        o.class("pieces-matched");
    }
    // ---- (a') aligned class with integer geometry throughout (every segment length, the closing segment
    // included, every dash entry and the offset are integers): the dasher's f32 arithmetic is exact, so ties
    // (a dash boundary exactly on a vertex, on the subpath's end or on the closing point) are not a rounding
    // matter and the piece structure must be the model's: same number of pieces of positive length, each with
    // the same end points, length and closedness.  In particular an 'on' dash that ends exactly at the closing
    // point of a closed subpath whose pattern starts 'on' is joined to the piece at the beginning.
    let all_int = c.aligned
        && style.dash_offset.fract() == 0.0
        && dashes.iter().all(|d| d.fract() == 0.0)
        && polys.iter().all(|p| {
            let n = p.pts.len();
            let m = if p.closed { n } else { n - 1 };
            (0..m).all(|i| dist(p.pts[i], p.pts[(i + 1) % n]).fract() == 0.0)
        });
    if all_int {
        let real: Vec<&(Vec<P>, bool)> = out.iter().filter(|(p, closed)| p.len() >= 2 && poly_len(p, *closed) > 0.0).collect();
        let mps: Vec<&DashPiece> = model.pieces.iter().filter(|m| m.len > 0.0).collect();
        let describe = || format!("output pieces {:?}; model pieces {:?}", real.iter().map(|(p, c)| (p[0], p[p.len() - 1], *c)).collect::<Vec<_>>(), mps.iter().map(|m| (m.poly.pts[0], m.poly.pts[m.poly.pts.len() - 1], m.poly.closed)).collect::<Vec<_>>());
        if real.len() != mps.len() {
            return Err(format!("integer geometry: the dasher emitted {} pieces of positive length, the arc-length model has {} (dash {:?}, offset {}); {}", real.len(), mps.len(), dashes, style.dash_offset, describe()));
        }
        for mp in &mps {
            let (a, b) = (mp.poly.pts[0], mp.poly.pts[mp.poly.pts.len() - 1]);
            let found = real.iter().any(|(p, closed)| {
                *closed == mp.poly.closed && (poly_len(p, *closed) - mp.len).abs() < 1e-3 && (mp.poly.closed || (dist(p[0], a) < 1e-3 && dist(p[p.len() - 1], b) < 1e-3))
            });
            if !found {
                return Err(format!("integer geometry: the model's piece from {:?} to {:?} (length {}, closed {}) is not in the dasher output (dash {:?}, offset {}); {}", a, b, mp.len, mp.poly.closed, dashes, style.dash_offset, describe()));
            }
        }
        o.class("integer-geometry-structure-compared");
        o.class_if(model.features.iter().any(|f| *f == "closed-end-joined-to-start" || *f == "closed-all-on"), "integer-geometry-closed-joined-or-all-on");
    }
    // ---- (b) pixels (generic class only)
    o.class_if(model.pieces.len() > 256, "more-than-256-dashes");
    o.class_if(c.path.ops.windows(2).any(|w| matches!(w[0], POp::Z) && matches!(w[1], POp::L(..))), "subpath-continued-after-close");
    o.class_if(dashes.iter().any(|d| *d >= 1.0e8) && style.dash_offset.abs() >= 1.0e8, "period-and-offset-beyond-1e8");
    if !c.aligned && !model.boundary_near_vertex && model.pieces.len() <= 150 {
        let mut dt = blank_target(c.w, c.h);
        dt.set_transform(&to_transform(&c.xf));
        harmless_prelude(&mut dt, (c.w * 7 + c.h * 13 + c.path.ops.len() as i32 * 5 + dashes.len() as i32) as u32);
        dt.stroke(&path, &Source::Solid(SolidSource { r: 255, g: 255, b: 255, a: 255 }), &style, &DrawOptions::new());
        let got = dt.get_data().to_vec();
        let piece_polys: Vec<Poly> = model.pieces.iter().map(|p| p.poly.clone()).collect();
        let Some(v) = verdicts(&piece_polys, style.width as f64, c.style.cap, c.style.join, style.miter_limit as f64, &c.xf, c.w, c.h, 0.75) else {
            return Err("HARNESS: dashed region could not be built".into());
        };
        let (ones, zeros, skipped, seams) = super::c04::judge(&got, &v, c.w, "dashed stroke", seams_open)?;
        o.judged += ones + zeros - seams;
        o.undecided += skipped;
        o.excluded_known += seams;
        o.class("pixels-judged");
        o.class_if(ones > 0 && zeros > 0, "pixels-both-verdicts");
    }
    for f in &model.features {
        o.class(f);
    }
    o.class_if(c.aligned, "aligned");
    o.class_if(style.dash_offset != 0.0, "offset-nonzero");
    o.class_if(style.dash_offset < 0.0, "offset-negative");
    o.class_if(style.dash_offset.abs() >= 1.0e5, "offset-huge");
    o.class_if(dashes.len() % 2 == 1, "odd-array");
    o.class_if(polys.iter().any(|p| p.closed), "closed-subpath");
    o.class_if(polys.len() > 1, "multi-subpath");
    let interesting = model.features.iter().any(|f| matches!(*f, "dash-spans-corner" | "dash-longer-than-subpath" | "closed-end-joined-to-start" | "closed-all-on" | "dash-boundary-on-closing-segment")) || style.dash_offset != 0.0 || dashes.len() % 2 == 1 || polys.iter().any(|p| p.closed);
    o.nontrivial = model.features.contains(&"multi-dash") && interesting;
    Ok(o)
}

fn dash_path_spec(ext: f32, aligned: bool) -> BoxedStrategy<PathSpec> {
    let sub = if aligned {
        // axis-aligned integer steps: segment lengths are integers
        (2i32..ext as i32 - 2, 2i32..ext as i32 - 2, prop::collection::vec((0u8..4, 1i32..=8), 1..=4), any::<bool>())
            .prop_map(move |(x, y, steps, closed)| {
                let (mut cx, mut cy) = (x, y);
                let mut ops = vec![POp::M(cx as f32, cy as f32)];
                let mut last_dir = 9u8;
                for (dir, l) in steps {
                    // no immediate reversal (keeps the outline simple)
                    let dir = if last_dir != 9 && dir == (last_dir + 2) % 4 { (dir + 1) % 4 } else { dir };
                    last_dir = dir;
                    match dir {
                        0 => cx += l,
                        1 => cy += l,
                        2 => cx -= l,
                        _ => cy -= l,
                    }
                    cx = cx.clamp(1, ext as i32 - 1);
                    cy = cy.clamp(1, ext as i32 - 1);
                    ops.push(POp::L(cx as f32, cy as f32));
                }
                if closed {
                    ops.push(POp::Z);
                }
                ops
            })
            .boxed()
    } else {
        (prop::collection::vec((2.0f32..ext - 2.0, 2.0f32..ext - 2.0), 2..=5), any::<bool>())
            .prop_map(|(pts, closed)| {
                let mut ops = vec![POp::M(pts[0].0, pts[0].1)];
                let mut last = pts[0];
                for p in &pts[1..] {
                    // segments longer than the margin
                    if ((p.0 - last.0).powi(2) + (p.1 - last.1).powi(2)).sqrt() >= 1.0 {
                        ops.push(POp::L(p.0, p.1));
                        last = *p;
                    }
                }
                if ops.len() < 2 {
                    ops.push(POp::L(last.0 + 5.0, last.1 + 3.0));
                }
                if closed {
                    // sometimes return exactly to the start before closing (zero-length closing segment)
                    if ops.len() >= 3 && (pts[0].0.to_bits() & 3) == 0 {
                        ops.push(POp::L(pts[0].0, pts[0].1));
                    }
                    ops.push(POp::Z);
                }
                ops
            })
            .boxed()
    };
    (prop::collection::vec(sub, 1..=3), prop::bool::weighted(0.33), prop::bool::weighted(0.25)).prop_map(|(subs, evenodd, cont)| {
        let mut ops: Vec<POp> = subs.concat();
        // one path in four: a subpath that follows a closed one continues from it without a move_to of its own
        // (it starts at the closed subpath's starting point, and the dash pattern restarts there)
        if cont {
            let mut k = 1;
            while k < ops.len() {
                if matches!(ops[k], POp::M(..)) && matches!(ops[k - 1], POp::Z) {
                    if let POp::M(x, y) = ops[k] {
                        ops[k] = POp::L(x, y);
                    }
                }
                k += 1;
            }
        }
        PathSpec { ops, evenodd }
    }).boxed()
}

pub fn strategy() -> BoxedStrategy<Case> {
    (24i32..=40, 24i32..=40, prop::bool::weighted(0.3))
        .prop_flat_map(|(w, h, aligned)| {
            let ext = w.min(h) as f32;
            let entry: BoxedStrategy<f32> = if aligned { (1i32..=12).prop_map(|v| v as f32).boxed() } else { prop_oneof![4 => 0.5f32..12.0, 1 => 12.0f32..30.0, 1 => 40.0f32..200.0].boxed() };
            let dashes = prop::collection::vec(entry, 1..=6);
            let offset = if aligned {
                prop_oneof![3 => Just(0.0f32), 3 => (-20i32..=40).prop_map(|v| v as f32)].boxed()
            } else {
                prop_oneof![
                    3 => Just(0.0f32),
                    3 => 0.0f32..10.0,
                    2 => 10.0f32..100.0,
                    1 => Just(10000.0f32),
                    1 => 1000.0f32..10000.0,
                    3 => -100.0f32..0.0,
                    // "any magnitude": huge offsets of either sign
                    2 => (1.0e5f32..2.0e9, any::<bool>()).prop_map(|(v, neg)| if neg { -v } else { v }),
                    1 => prop::sample::select(vec![1.0e9f32, -1.0e9, 123456792.0, 1.0e7, -3.0e8, 1.0e12, -1.0e15]),
                ]
                .boxed()
            };
            let xf = if aligned {
                Just(IDENT).boxed()
            } else {
                prop_oneof![
                    3 => Just(IDENT),
                    2 => (0.0f32..360.0, 0.5f32..2.0, -4.0f32..8.0, -4.0f32..8.0).prop_map(|(a, s, x, y)| { let r = (a as f64).to_radians(); let (c, sn) = ((r.cos() * s as f64) as f32, (r.sin() * s as f64) as f32); [c, sn, -sn, c, x, y] }),
                ]
                .boxed()
            };
            (Just((w, h, aligned)), dash_path_spec(ext, aligned), dashes, offset, prop_oneof![1.0f32..6.0, Just(2.0f32)], 0u8..3, 0u8..3, prop_oneof![Just(10.0f32), Just(4.0f32), 1.0f32..6.0], xf)
        })
        .prop_map(|((w, h, aligned), path, dash, offset, width, cap, join, miter, xf)| {
            // Beyond ~2e4 the phase of the pattern is only defined when the period is exactly representable:
            // the library adds the entries in f32, and an error of one ulp of the period times offset/period
            // repetitions would exceed any tolerance.  Huge offsets therefore come with entries that are
            // multiples of 1/4 (their sums are exact in f32 and in the f64 model alike).
            let dash: Vec<f32> = if offset.abs() > 2.0e4 { dash.into_iter().map(|d| ((d * 4.0).round() / 4.0).max(0.25)).collect() } else { dash };
            Case {
                w,
                h,
                path,
                style: StyleSpec { width: Fl(width), cap, join, miter: Fl(miter), dash: dash.into_iter().map(Fl).collect(), offset: Fl(offset) },
                xf,
                aligned,
            }
        })
        .boxed()
}

/// long subpaths with short dashes: several hundred dashes on one subpath (counters narrower than the dash
/// count wrap); judged through the dasher hook only (vertices on the path, total 'on' length, every model piece
/// present with its end points), the pixel stage is skipped beyond 150 pieces
fn long_strategy() -> BoxedStrategy<Case> {
    let entry = prop_oneof![3 => 0.5f32..2.5, 1 => (2i32..=10).prop_map(|v| v as f32 / 4.0)];
    let pt = || (-300.0f32..340.0, -300.0f32..340.0);
    (24i32..=40, 24i32..=40, prop::collection::vec(pt(), 2..=5), any::<bool>(), prop::collection::vec(entry, 1..=6), prop_oneof![2 => Just(0.0f32), 2 => 0.0f32..20.0, 1 => -50.0f32..0.0], 1.0f32..4.0, 0u8..3, 0u8..3)
        .prop_map(|(w, h, pts, closed, dash, offset, width, cap, join)| {
            // one case in eight: an enormous period with an offset of the same size ("entries longer than the whole
            // path" with "offsets of any magnitude"), all values exactly representable in f32 so that the phase is
            // well defined: [1.5 x 2^30, 128] with the offset 256 m short of the first entry, or entries near
            // f32::MAX with the offset inside the gap
            let sel = (width.to_bits() >> 3) % 16;
            let (dash, offset) = match sel {
                0 => {
                    let big = 1610612736.0f32;
                    let m = 1 + (width.to_bits() >> 8) % 3;
                    (vec![big, 128.0], big - 256.0 * m as f32)
                }
                1 => (vec![2.0e38f32, 1.0e38], 2.5e38f32),
                _ => (dash, offset),
            };
            let mut ops = vec![POp::M(pts[0].0, pts[0].1)];
            let mut last = pts[0];
            for p in &pts[1..] {
                if ((p.0 - last.0).powi(2) + (p.1 - last.1).powi(2)).sqrt() >= 40.0 {
                    ops.push(POp::L(p.0, p.1));
                    last = *p;
                }
            }
            if ops.len() < 2 {
                ops.push(POp::L(last.0 + 400.0, last.1 + 300.0));
            }
            if closed {
                ops.push(POp::Z);
            }
            Case {
                w,
                h,
                path: PathSpec { ops, evenodd: false },
                style: StyleSpec { width: Fl(width), cap, join, miter: Fl(4.0), dash: dash.into_iter().map(Fl).collect(), offset: Fl(offset) },
                xf: IDENT,
                aligned: false,
            }
        })
        .boxed()
}

/// arrays that must disable the stroke
fn rejected_strategy() -> BoxedStrategy<Case> {
    (strategy(), prop::sample::select(vec![vec![0.0f32], vec![0.0, 0.0], vec![-1.0, -2.0], vec![3.0, -5.0], vec![f32::NAN], vec![1.0, f32::NAN]]))
        .prop_map(|(mut c, d)| {
            c.style.dash = d.into_iter().map(Fl).collect();
            c
        })
        .boxed()
}

pub fn property(ctx: &Ctx) -> Property {
    let seams_open = ctx.excluded(super::c04::SEAM_KEY);
    Property {
        id: "C09",
        rule: "cases: 1-3 polyline subpaths (open/closed, 2-5 vertices, segments >= 1 px), dash arrays of 1-6 positive entries (0.5..30 plus entries longer than the whole path; odd lengths), offsets 0 / small / beyond the period / 10^3..10^4 / negative / huge (10^5..10^15, either sign), widths 1-6, all caps and joins, identity or similarity transform; a generic class (random floats) and an aligned class (integer lengths and dashes so that dash boundaries land exactly on vertices, subpath ends and the closing point); plus arrays that must disable the stroke (zero, negative or NaN total); part long: subpaths of 40..900 px (mostly off-surface) with 1-6 entries of 0.5..2.5, i.e. several hundred dashes per subpath, one case in eight with a period and an offset beyond 1e8 (exactly representable), judged by oracle (a) only. Oracle (a), both classes, through the cfg(raqote_verif) hook on dash_path: every output vertex lies on the input path, total 'on' length equals that of an f64 arc-length dasher (pattern repeated cyclically, odd arrays doubled, offset modulo the period with mathematical sign, restarted per subpath), a closed subpath that is 'on' throughout comes out as one closed outline, and in the generic class every model piece (incl. the piece joined across the start of a closed subpath) appears with the same end points and length. Oracle (b), generic class: the model's pieces are turned into C04's stroke region and every pixel more than 0.75 px inside / outside is judged. Non-trivial: >= 2 dashes on a subpath and one of: closed subpath, dash spanning a corner, offset != 0, odd array, dash longer than the subpath, dash boundary on the closing segment; distinct by hash of the case.",
        assumptions: vec![
            "pixel judgement excludes the aligned class and any case with a dash boundary within 1e-3 (+4e-7 x |offset|, the f32 phase error) of a vertex or of either end of a subpath (whether an epsilon-long piece turns a corner is decided by f32 rounding)",
            "the sub-pixel seam finding of C04 applies to dashed strokes with the same signature",
        ],
        parts: vec![part("dash", 40_000, 800_000, strategy, move |c| check(c, seams_open)), part("rejected", 600, 10_000, rejected_strategy, move |c| check(c, seams_open)), part("long", 1_500, 30_000, long_strategy, move |c| check(c, seams_open))],
        min_class_fraction: vec![
            ("dash", "multi-dash", 0.5),
            ("dash", "closed-subpath", 0.3),
            ("dash", "dash-spans-corner", 0.2),
            ("dash", "offset-negative", 0.1),
            ("dash", "offset-huge", 0.05),
            ("dash", "odd-array", 0.3),
            ("dash", "dash-longer-than-subpath", 0.05),
            ("dash", "closed-end-joined-to-start", 0.03),
            ("dash", "closed-all-on", 0.01),
            ("dash", "aligned", 0.2),
            ("dash", "pixels-judged", 0.4),
            ("long", "more-than-256-dashes", 0.3),
            ("long", "period-and-offset-beyond-1e8", 0.05),
        ],
        panic_is_violation: false,
    }
}
