//! C04 — strokes cover exactly the offset region implied by width, joins and caps.

use crate::gen::*;
use crate::runner::*;
use crate::scene::*;
use crate::stroke_model::*;
use proptest::prelude::*;
use raqote::*;
use serde::{Deserialize, Serialize};

#[derive(Clone, Debug, Serialize, Deserialize)]
pub struct Case {
    pub w: i32,
    pub h: i32,
    pub path: PathSpec,
    pub style: StyleSpec,
    pub xf: Xf,
}

pub fn render(c: &Case) -> Vec<u32> {
    let mut dt = blank_target(c.w, c.h);
    dt.set_transform(&to_transform(&c.xf));
    harmless_prelude(&mut dt, (c.w * 7 + c.h * 13 + c.path.ops.len() as i32 * 5 + c.style.cap as i32) as u32);
    dt.stroke(&c.path.build(), &Source::Solid(SolidSource { r: 255, g: 255, b: 255, a: 255 }), &c.style.build(), &DrawOptions::new());
    dt.get_data().to_vec()
}

fn smax(xf: &Xf) -> f64 {
    let (a, b, c, d) = (xf[0] as f64, xf[1] as f64, xf[2] as f64, xf[3] as f64);
    let s1 = a * a + b * b + c * c + d * d;
    let s2 = ((a * a + b * b - c * c - d * d).powi(2) + 4.0 * (a * c + b * d).powi(2)).sqrt();
    ((s1 + s2) / 2.0).sqrt()
}

pub const SEAM_KEY: &str = "C04-subpixel-seams";

/// returns (must-paint pixels, must-stay pixels, unjudged pixels, pixels attributed to the seam finding)
pub fn judge(got: &[u32], v: &[u8], w: i32, what: &str, seams_open: bool) -> Result<(u64, u64, u64, u64), String> {
    let (mut ones, mut zeros, mut skipped, mut seams) = (0, 0, 0, 0);
    for i in 0..got.len() {
        match v[i] {
            1 => {
                ones += 1;
                // signature of the listed finding C04-subpixel-seams: an interior pixel that is a grey level of
                // white and lost at most 6 of its 16 samples (alpha >= 0xa0)
                let a = got[i] >> 24;
                if seams_open && got[i] != 0xffff_ffff && got[i] == a * 0x0101_0101 && a >= 0xa0 {
                    seams += 1;
                    continue;
                }
                if got[i] != 0xffff_ffff {
                    return Err(format!("pixel ({},{}) lies inside the {} region by more than the margin but is {} instead of fully painted", i as i32 % w, i as i32 / w, what, hex(got[i])));
                }
            }
            0 => {
                zeros += 1;
                if got[i] != 0 {
                    return Err(format!("pixel ({},{}) lies outside the {} region by more than the margin but is {} instead of untouched", i as i32 % w, i as i32 / w, what, hex(got[i])));
                }
            }
            _ => skipped += 1,
        }
    }
    Ok((ones, zeros, skipped, seams))
}

pub fn check(c: &Case, seams_open: bool) -> CheckResult {
    let mut o = Outcome::new();
    o.fp = fp_of(c);
    let got = render(c);
    let width = c.style.width.0 as f64;
    if !(width > 0.0) {
        if let Some(i) = got.iter().position(|p| *p != 0) {
            return Err(format!("stroke width {} must paint nothing but pixel ({},{}) is {}", c.style.width.0, i as i32 % c.w, i as i32 / c.w, hex(got[i])));
        }
        o.judged = got.len() as u64;
        o.class("width<=0-or-nan");
        return Ok(o);
    }
    let curves = c.path.has_curves();
    let margin = if curves { 1.0 } else { 0.5 };
    let polys = polylines(&c.path, 0.01 / smax(&c.xf));
    let Some(v) = verdicts(&polys, width, c.style.cap, c.style.join, c.style.miter.0 as f64, &c.xf, c.w, c.h, margin) else {
        return Err("HARNESS: region could not be built (singular transform?)".into());
    };
    let (ones, zeros, skipped, seams) = judge(&got, &v, c.w, "stroke", seams_open)?;
    o.judged = ones + zeros - seams;
    o.undecided = skipped;
    o.excluded_known = seams;
    o.class_if(seams > 0, "seam-pixels-attributed-to-known-finding");
    o.nontrivial = ones > 0 && zeros > 0;
    o.class(["cap:butt", "cap:round", "cap:square"][c.style.cap as usize % 3]);
    o.class(["join:miter", "join:round", "join:bevel"][c.style.join as usize % 3]);
    // the lower end of the domain of miter limits: no corner is within a limit of 0, every join is the bevel
    o.class_if(c.style.join == 0 && c.style.miter.0 == 0.0, "miter-join-with-a-limit-of-exactly-zero");
    o.class_if(curves, "curves");
    {
        let mut cont = false;
        let mut cont_curve = false;
        for w in c.path.ops.windows(2) {
            if matches!(w[0], POp::Z) {
                cont |= matches!(w[1], POp::L(..) | POp::Q(..) | POp::C(..));
                cont_curve |= matches!(w[1], POp::Q(..) | POp::C(..));
            }
        }
        o.class_if(cont, "subpath-continued-after-close");
        {
            let mut cur: Option<(f32, f32)> = None;
            let mut touch = false;
            for (i, op) in c.path.ops.iter().enumerate() {
                match *op {
                    POp::M(x, y) => {
                        touch |= i > 0 && cur == Some((x, y)) && !matches!(c.path.ops[i - 1], POp::Z | POp::M(..));
                        cur = Some((x, y));
                    }
                    POp::L(x, y) | POp::Q(_, _, x, y) | POp::C(_, _, _, _, x, y) => cur = Some((x, y)),
                    POp::Z => cur = None,
                }
            }
            o.class_if(touch, "subpath-beginning-exactly-where-the-previous-open-one-ended");
        }
        o.class_if(cont_curve, "curve-directly-after-close");
    }
    o.class_if(polys.iter().any(|p| p.closed), "closed-subpath");
    // closed subpath whose last explicit point equals its start
    {
        let mut start: Option<(f32, f32)> = None;
        let mut last: Option<(f32, f32)> = None;
        let mut explicit = false;
        for op in &c.path.ops {
            match *op {
                POp::M(x, y) => {
                    start = Some((x, y));
                    last = start;
                }
                POp::L(x, y) => last = Some((x, y)),
                POp::Z => {
                    if start.is_some() && start == last && c.path.ops.len() > 3 {
                        explicit = true;
                    }
                }
                _ => {}
            }
        }
        o.class_if(explicit, "closed-with-explicit-return-to-start");
    }
    o.class_if(polys.iter().any(|p| !p.closed), "open-subpath");
    o.class(classify_xf(&c.xf));
    // angle classes actually present
    let hw_dev = width / 2.0 * smax(&c.xf);
    let mut sharp = false;
    let mut reversal = false;
    let mut exact_retrace = false;
    for p in &polys {
        let n = p.pts.len();
        if n < 3 {
            continue;
        }
        for i in 1..n - 1 {
            let d1 = crate::geom::sub(p.pts[i], p.pts[i - 1]);
            let d2 = crate::geom::sub(p.pts[i + 1], p.pts[i]);
            let cs = crate::geom::dot(d1, d2) / (crate::geom::len(d1) * crate::geom::len(d2));
            if cs < 0.5 {
                sharp = true;
            }
            if cs < -0.999 {
                reversal = true;
            }
            if p.pts[i + 1] == p.pts[i - 1] && crate::geom::len(d1) > 0.0 {
                exact_retrace = true;
            }
        }
    }
    o.class_if(sharp && hw_dev >= 1.5, "join-visible");
    o.class_if(reversal, "reversal");
    o.class_if(c.style.join == 0 && c.style.miter.0 >= 60.0 && hw_dev >= 0.5 && polys.iter().any(|p| p.pts.windows(3).any(|q| {
        let (ax, ay) = (q[1].0 - q[0].0, q[1].1 - q[0].1);
        let (bx, by) = (q[2].0 - q[1].0, q[2].1 - q[1].1);
        let (la, lb) = (ax.hypot(ay), bx.hypot(by));
        la > 0.5 && lb > 0.5 && (ax * bx + ay * by) < 0.0 && (ax * by - ay * bx).abs() / (la * lb) < 0.0175 && (ax * by - ay * bx).abs() / (la * lb) > 3.0e-4
    })), "near-reversal-under-a-miter-limit-of-60-or-more");
    {
        // an exactly right-angled corner (axis-parallel segments) under a miter limit between 1 and sqrt 2
        let mut right = false;
        for p in &polys {
            let n = p.pts.len();
            for i in 1..n.saturating_sub(1) {
                let (a, b, cc) = (p.pts[i - 1], p.pts[i], p.pts[i + 1]);
                right |= (a.1 == b.1 && b.0 == cc.0 && a.0 != b.0 && b.1 != cc.1) || (a.0 == b.0 && b.1 == cc.1 && a.1 != b.1 && b.0 != cc.0);
            }
        }
        o.class_if(right && c.style.join == 0 && c.style.miter.0 > 1.0 && c.style.miter.0 < 1.4142 && hw_dev >= 1.5, "exact-right-angle-with-miter-limit-between-1-and-sqrt2");
    }
    o.class_if(c.path.evenodd && sharp && hw_dev >= 1.5, "evenodd-path-with-visible-join");
    o.class_if(smax(&c.xf) >= 1000.0, "ctm-scale>=1000");
    o.class_if(xf_det(&c.xf) < 0.0, "mirroring-transform");
    o.class_if(xf_det(&c.xf) < 0.0 && smax(&c.xf) >= 20.0 && curves, "curves-under-a-mirroring-magnifying-transform");
    o.class_if(exact_retrace && c.style.join == 1 && hw_dev >= 1.5, "exact-retrace-with-round-join");
    o.class_if(hw_dev >= 1.5 && c.style.cap != 0 && polys.iter().any(|p| !p.closed), "cap-visible");
    Ok(o)
}

/// smallest radius of curvature along the smooth parts (turning < 30 degrees per fine step) of a path's curves
pub fn min_curvature_radius(p: &PathSpec) -> f64 {
    let polys = polylines(p, 1e-3);
    let mut r = f64::INFINITY;
    for poly in &polys {
        let n = poly.pts.len();
        for i in 1..n.saturating_sub(1) {
            let d1 = crate::geom::sub(poly.pts[i], poly.pts[i - 1]);
            let d2 = crate::geom::sub(poly.pts[i + 1], poly.pts[i]);
            let (l1, l2) = (crate::geom::len(d1), crate::geom::len(d2));
            let th = (crate::geom::cross(d1, d2) / (l1 * l2)).clamp(-1.0, 1.0).asin().abs();
            if crate::geom::dot(d1, d2) > 0.0 && th > 1e-9 && th < 0.52 && l1.max(l2) < 3.0 {
                r = r.min(0.5 * (l1 + l2) / th);
            }
        }
    }
    r
}

/// polyline by turtle steps so that turning angles are controlled
fn turtle(ext: f32) -> BoxedStrategy<(Vec<(f32, f32)>, bool)> {
    let angle = prop_oneof![
        4 => -170.0f32..170.0,
        1 => prop::sample::select(vec![90.0f32, -90.0, 180.0, 0.0, 45.0, 135.0, -135.0]),
        1 => prop_oneof![-1.0f32..1.0, 179.0f32..181.0],
        // within 0.8 degrees of a reversal but not on it: the miter is 140 to 3000 half-widths long
        1 => prop_oneof![179.2f32..179.98, 180.02f32..180.8],
        // hairpins: 1e-5..3e-4 rad from a reversal (the dot product of the unit normals rounds to either side of -1)
        1 => prop_oneof![179.98f32..179.9995, 180.0005f32..180.02],
    ];
    // a step is a turn and a length, or (one in twelve) an exact retrace to the point before the current one:
    // a reversal whose two normals are bit-exactly opposite, which no computed 180 degree turn produces
    let step = (angle, prop_oneof![3 => 2.0f32..14.0, 1 => 0.25f32..2.0, 1 => Just(0.0f32)], prop::bool::weighted(0.08));
    (0.0f32..ext, 0.0f32..ext, 0.0f32..360.0, prop::collection::vec(step, 1..=5), any::<bool>(), prop::bool::weighted(0.3))
        .prop_map(move |(x, y, a0, steps, closed, explicit_return)| {
            let mut pts = vec![(x, y)];
            let mut dir = a0 as f64;
            let (mut cx, mut cy) = (x as f64, y as f64);
            for (turn, l, retrace) in steps {
                if retrace && pts.len() >= 2 {
                    let p = pts[pts.len() - 2];
                    pts.push(p);
                    cx = p.0 as f64;
                    cy = p.1 as f64;
                    dir += 180.0;
                    continue;
                }
                dir += turn as f64;
                cx += dir.to_radians().cos() * l as f64;
                cy += dir.to_radians().sin() * l as f64;
                // stay near the surface
                cx = cx.clamp(-6.0, ext as f64 + 6.0);
                cy = cy.clamp(-6.0, ext as f64 + 6.0);
                pts.push((cx as f32, cy as f32));
            }
            // closed subpaths that return *exactly* to their start before close() (as exported SVG paths do):
            // the closing segment then has zero length and the closing join must still be there
            if closed && explicit_return {
                pts.push(pts[0]);
            }
            (pts, closed)
        })
        .boxed()
}

pub fn stroke_path(ext: f32, allow_curves: bool) -> BoxedStrategy<PathSpec> {
    let c = move || -6.0f32..ext + 6.0;
    let poly_sub = turtle(ext).prop_map(|(pts, closed)| {
        let mut ops: Vec<POp> = pts.iter().enumerate().map(|(i, p)| if i == 0 { POp::M(p.0, p.1) } else { POp::L(p.0, p.1) }).collect();
        if closed {
            ops.push(POp::Z);
        }
        ops
    });
    // gentle curves: control points near the chord, so that the curve has no cusp or hairpin.  (For a curve
    // that turns more tightly than the stroke's half-width the offset region depends on where a flattening
    // happens to put its vertices, so the statement's region is not well defined; the width is additionally
    // clamped below the smallest radius of curvature after generation.)
    let gentle = move |from: (f32, f32)| {
        (c(), c(), -0.4f32..0.4, -0.15f32..0.15, -0.3f32..0.3, -0.3f32..0.3, any::<bool>()).prop_map(move |(x, y, k, j, k1, k2, cubic)| {
            let (ax, ay) = from;
            let (mut bx, mut by) = (x, y);
            let (mut dx, mut dy) = (bx - ax, by - ay);
            if (dx * dx + dy * dy).sqrt() < 4.0 {
                bx = ax + 5.0;
                by = ay + 3.0;
                dx = 5.0;
                dy = 3.0;
            }
            let (px, py) = (-dy, dx);
            if cubic {
                POp::C(ax + dx / 3.0 + px * k1, ay + dy / 3.0 + py * k1, ax + 2.0 * dx / 3.0 + px * k2, ay + 2.0 * dy / 3.0 + py * k2, bx, by)
            } else {
                POp::Q(ax + dx * (0.5 + j) + px * k, ay + dy * (0.5 + j) + py * k, bx, by)
            }
        })
    };
    let curve_sub = (c(), c())
        .prop_flat_map(move |a| (Just(a), gentle(a)))
        .prop_flat_map(move |(a, first)| {
            let end = match first {
                POp::Q(_, _, x, y) | POp::C(_, _, _, _, x, y) => (x, y),
                _ => a,
            };
            (Just(a), Just(first), prop::option::of(prop_oneof![gentle(end).boxed(), (c(), c()).prop_map(|(x, y)| POp::L(x, y)).boxed()]), any::<bool>())
        })
        .prop_map(|(a, first, second, closed)| {
            let mut ops = vec![POp::M(a.0, a.1), first];
            if let Some(s) = second {
                ops.push(s);
            }
            if closed {
                ops.push(POp::Z);
            }
            ops
        });
    // rectilinear: every segment exactly horizontal or vertical (whole and half coordinates), so that the unit
    // normals of consecutive segments are exactly perpendicular (dot product exactly 0) or exactly opposite
    let rect_sub = ((2i32..=(2.0 * ext) as i32 - 2, 2i32..=(2.0 * ext) as i32 - 2), prop::collection::vec((any::<bool>(), prop_oneof![-24i32..=-3, 3i32..=24]), 2..=5), any::<bool>()).prop_map(|((x, y), steps, closed)| {
        let (mut x, mut y) = (x, y);
        let mut ops = vec![POp::M(x as f32 / 2.0, y as f32 / 2.0)];
        let mut horizontal = steps[0].0;
        for (_, d) in &steps {
            if horizontal {
                x += d
            } else {
                y += d
            }
            ops.push(POp::L(x as f32 / 2.0, y as f32 / 2.0));
            horizontal = !horizontal;
        }
        if closed {
            ops.push(POp::Z);
        }
        ops
    });
    let poly_sub = prop_oneof![5 => poly_sub.boxed(), 1 => rect_sub.boxed()];
    let sub = if allow_curves { prop_oneof![1 => poly_sub.boxed(), 1 => curve_sub.boxed()].boxed() } else { poly_sub.boxed() };
    // (the fill rule of the path that is stroked is irrelevant to its stroke; one path in three carries EvenOdd)
    // (a subpath that follows a closed one may also *continue* from that subpath's starting point, without a
    // move_to of its own: it is then moved so that it begins there, and its MoveTo is dropped)
    (prop::collection::vec(sub, 1..=3), prop::bool::weighted(0.33), prop::collection::vec(prop::bool::weighted(0.35), 3))
        .prop_map(|(subs, evenodd, cont)| {
            let mut ops: Vec<POp> = Vec::new();
            let mut start = (0.0f32, 0.0f32);
            let mut prev_closed = false;
            for (k, sub) in subs.iter().enumerate() {
                let mut sub = sub.clone();
                match sub[0] {
                    POp::M(ax, ay) if k > 0 && prev_closed && cont[k] => {
                        let (dx, dy) = (start.0 - ax, start.1 - ay);
                        for op in sub.iter_mut() {
                            *op = match *op {
                                POp::M(x, y) => POp::M(x + dx, y + dy),
                                POp::L(x, y) => POp::L(x + dx, y + dy),
                                POp::Q(a, b, x, y) => POp::Q(a + dx, b + dy, x + dx, y + dy),
                                POp::C(a, b, c, d, x, y) => POp::C(a + dx, b + dy, c + dx, d + dy, x + dx, y + dy),
                                POp::Z => POp::Z,
                            };
                        }
                        sub.remove(0);
                    }
                    // ... or, after an *open* subpath, begin exactly where that one ended (with its own move_to: two
                    // subpaths that merely touch, each with its caps there and no join between them)
                    POp::M(ax, ay) if k > 0 && !prev_closed && cont[k] && !ops.is_empty() => {
                        let end = match ops[ops.len() - 1] {
                            POp::M(x, y) | POp::L(x, y) | POp::Q(_, _, x, y) | POp::C(_, _, _, _, x, y) => (x, y),
                            POp::Z => (ax, ay),
                        };
                        let (dx, dy) = (end.0 - ax, end.1 - ay);
                        for op in sub.iter_mut() {
                            *op = match *op {
                                POp::M(x, y) => POp::M(x + dx, y + dy),
                                POp::L(x, y) => POp::L(x + dx, y + dy),
                                POp::Q(a, b, x, y) => POp::Q(a + dx, b + dy, x + dx, y + dy),
                                POp::C(a, b, c, d, x, y) => POp::C(a + dx, b + dy, c + dx, d + dy, x + dx, y + dy),
                                POp::Z => POp::Z,
                            };
                        }
                        // (the shifted move_to must be bit-equal to the end point)
                        sub[0] = POp::M(end.0, end.1);
                        start = end;
                    }
                    POp::M(ax, ay) => start = (ax, ay),
                    _ => {}
                }
                prev_closed = matches!(sub.last(), Some(POp::Z));
                ops.extend(sub);
            }
            PathSpec { ops, evenodd }
        })
        .boxed()
}

fn stroke_xf(curves: bool) -> BoxedStrategy<Xf> {
    let cond = if curves { 2.0f32 } else { 4.5f32 };
    prop_oneof![
        3 => Just(IDENT),
        1 => (-6.0f32..6.0, -6.0f32..6.0).prop_map(|(x, y)| [1., 0., 0., 1., x, y]),
        2 => (0.0f32..360.0, 0.3f32..4.0, -6.0f32..10.0, -6.0f32..10.0).prop_map(|(a, s, x, y)| { let r = (a as f64).to_radians(); let (c, sn) = ((r.cos() * s as f64) as f32, (r.sin() * s as f64) as f32); [c, sn, -sn, c, x, y] }),
        2 => (0.0f32..360.0, 0.5f32..2.0, 1.0f32..cond, -3.0f32..6.0, -3.0f32..6.0).prop_map(|(a, s, k, x, y)| {
            // rotation x anisotropic scale (condition number k^2 <= 20 resp. 4)
            let r = (a as f64).to_radians();
            let (c, sn) = (r.cos() as f32, r.sin() as f32);
            let (sx, sy) = (s * k, s / k);
            [c * sx, sn * sx, -sn * sy, c * sy, x, y]
        }),
        1 => (-0.8f32..0.8, -3.0f32..6.0, -3.0f32..6.0).prop_map(|(sh, x, y)| [1., 0., sh, 1., x, y]),
    ]
    .boxed()
}

pub fn strategy() -> BoxedStrategy<Case> {
    (24i32..=40, 24i32..=40, any::<bool>())
        .prop_flat_map(|(w, h, curves)| {
            let curves = curves && std::env::var("RQV_C04_NOCURVES").is_err();
            let ext = w.max(h) as f32;
            let width = prop_oneof![6 => 0.3f32..12.0, 1 => Just(1.0f32), 1 => prop::sample::select(vec![0.0f32, -1.0, f32::NAN])];
            // (large limits: a miter within 1 degree of a reversal is hundreds of half-widths long and still required)
            let miter = prop_oneof![4 => Just(10.0f32), 2 => Just(4.0f32), 2 => prop::sample::select(vec![0.0f32, -0.0, 0.0, 0.5]), 4 => 0.0f32..12.0, 2 => Just(1.4142135f32), 2 => Just(2.0f32), 1 => prop::sample::select(vec![200.0f32, 400.0, 60.0]), 2 => prop::sample::select(vec![1.0f32, 1.1, 1.2, 1.3, 1.4, 1.42, 1.5])];
            // zoom: the same picture in user units `zoom` times smaller under a CTM `zoom` times larger
            let zoom = prop_oneof![12 => Just(1.0f32), 1 => Just(4096.0f32), 1 => Just(65536.0f32), 1 => Just(1.0f32 / 64.0), 2 => Just(32.0f32), 1 => Just(1.0f32 / 4096.0)];
            // one transform in four also mirrors (negative determinant): the picture is flipped about the vertical
            // line through the middle of the surface
            let xf = (stroke_xf(curves), prop::bool::weighted(0.25)).prop_map(move |(x, mirror)| if mirror { [-x[0], x[1], -x[2], x[3], w as f32 - x[4], x[5]] } else { x });
            (Just((w, h)), stroke_path(ext * 0.8, curves), width, 0u8..3, 0u8..3, miter, xf, zoom)
        })
        .prop_map(|((w, h), path, width, cap, join, miter, xf, zoom)| {
            // keep the stroke's device extent reasonable: scale x width
            let mut width = width;
            let s = smax(&xf) as f32;
            if width * s > 16.0 {
                width = 16.0 / s;
            }
            // curves: round and bevel joins only.  A miter's tip (and the miter-or-bevel decision) at a corner
            // next to a curve swings by pixels when the tangent there changes by the few hundredths of a radian
            // that two legitimate flattenings differ by; the polyline class covers miters.
            let join = if path.has_curves() && join == 0 { 2 } else { join };
            // rectilinear paths with a miter join: half of them under a limit between 1 and sqrt 2 (a right angle
            // has ratio sqrt 2: bevelled there, mitred just above)
            let rectilinear = !path.has_curves() && path.points().windows(2).all(|p| p[0].0 == p[1].0 || p[0].1 == p[1].1) && path.ops.iter().filter(|o| matches!(o, POp::M(..))).count() == 1;
            let miter = if rectilinear && join == 0 && (w + h) % 2 == 0 { [1.1f32, 1.2, 1.3, 1.4][((w * 3 + h) % 4) as usize] } else { miter };
            // polylines with a vertex within a degree of a reversal (but not on it) and a miter join: half of them
            // under a limit of 60..400, where the miter (hundreds of half-widths long) is still required
            let near_reversal = !path.has_curves() && {
                let pts = path.points();
                pts.windows(3).any(|p| {
                    let (ax, ay) = ((p[1].0 - p[0].0) as f64, (p[1].1 - p[0].1) as f64);
                    let (bx, by) = ((p[2].0 - p[1].0) as f64, (p[2].1 - p[1].1) as f64);
                    let (la, lb) = (ax.hypot(ay), bx.hypot(by));
                    if la < 1.0 || lb < 1.0 {
                        return false;
                    }
                    let cosang = (ax * bx + ay * by) / (la * lb);
                    let sinang = (ax * by - ay * bx).abs() / (la * lb);
                    cosang < 0.0 && sinang < 0.0175 && sinang > 3.0e-4
                })
            };
            let miter = if near_reversal && join == 0 && (w + h) % 2 == 1 { [60.0f32, 200.0, 400.0, 200.0][((w + 3 * h) % 4) as usize] } else { miter };
            // curves: the half-width stays below 0.4 x the smallest radius of curvature (see stroke_path)
            if path.has_curves() && width > 0.0 {
                let r = min_curvature_radius(&path);
                if (width as f64) > 0.8 * r {
                    width = (0.8 * r) as f32;
                }
            }
            let (mut path, mut width, mut xf) = (path, width, xf);
            if zoom != 1.0 {
                for op in path.ops.iter_mut() {
                    *op = match *op {
                        POp::M(x, y) => POp::M(x / zoom, y / zoom),
                        POp::L(x, y) => POp::L(x / zoom, y / zoom),
                        POp::Q(a, b, x, y) => POp::Q(a / zoom, b / zoom, x / zoom, y / zoom),
                        POp::C(a, b, c, d, x, y) => POp::C(a / zoom, b / zoom, c / zoom, d / zoom, x / zoom, y / zoom),
                        POp::Z => POp::Z,
                    };
                }
                width /= zoom;
                for v in xf.iter_mut().take(4) {
                    *v *= zoom;
                }
            }
            Case { w, h, path, style: StyleSpec { width: Fl(width), cap, join, miter: Fl(miter), dash: vec![], offset: Fl(0.0) }, xf }
        })
        .boxed()
}


/// curves that overshoot: all control points (nearly) on the line through the end points, one of them beyond an
/// end, so that the curve runs past that end, turns on the spot and comes back (a "flat" curve by the distance of
/// its control points to the chord *line*, not to the chord). The stroke covers the whole run, up to the turning
/// point. Round and bevel joins, any cap, widths of 2..12 px.
pub fn overshoot_strategy() -> BoxedStrategy<Case> {
    (28i32..=44, 28i32..=44)
        .prop_flat_map(|(w, h)| {
            let ext = w.max(h) as f32;
            let c = move || 2.0f32..ext - 2.0;
            let f = prop_oneof![1.3f32..3.0, -2.0f32..-0.3];
            (Just((w, h)), (c(), c(), c(), c()), f, any::<bool>(), 0u8..3, 2.0f32..12.0, (0u8..3, 1u8..3), prop::option::of((c(), c())), stroke_xf(true), any::<bool>())
        })
        .prop_map(|((w, h), (ax, ay, bx, by), f, cubic, axis, width, (cap, join), tail, xf, closed)| {
            let (bx, by) = match axis {
                0 => (bx, ay),             // exactly horizontal
                1 => (ax, by),             // exactly vertical
                _ => (bx, by),             // any direction (collinear up to f32 rounding)
            };
            let (bx, by) = if (bx - ax).abs() + (by - ay).abs() < 6.0 { (ax + 7.0, ay + if axis == 0 { 0.0 } else { 5.0 }) } else { (bx, by) };
            let at = |t: f32| (ax + (bx - ax) * t, ay + (by - ay) * t);
            let mut ops = vec![POp::M(ax, ay)];
            if cubic {
                // both control points beyond the same end, or one on each side
                let (p, q) = (at(f), at(if f > 0.0 { f * 0.8 + 0.4 } else { f * 0.5 }));
                ops.push(POp::C(p.0, p.1, q.0, q.1, bx, by));
            } else {
                let p = at(f);
                ops.push(POp::Q(p.0, p.1, bx, by));
            }
            if let Some((x, y)) = tail {
                ops.push(POp::L(x, y));
                if closed {
                    ops.push(POp::Z);
                }
            }
            let mut width = width;
            let s = smax(&xf) as f32;
            if width * s > 16.0 {
                width = 16.0 / s;
            }
            Case { w, h, path: PathSpec { ops, evenodd: false }, style: StyleSpec { width: Fl(width), cap, join, miter: Fl(4.0), dash: vec![], offset: Fl(0.0) }, xf }
        })
        .boxed()
}

/// wide strokes through shallow bends: the join wedge on the outer side of a vertex is as wide as
/// (half width) x (turning angle), so it only becomes visible against the margin when the stroke is tens of
/// pixels wide; the part `region` (device width <= 16) cannot see a wedge that is missing or on the wrong side
/// for turning angles of a few degrees
pub fn wide_strategy() -> BoxedStrategy<Case> {
    let turn = prop_oneof![
        4 => prop_oneof![0.2f32..6.0, -6.0f32..-0.2],
        1 => Just(0.0f32),
        2 => -120.0f32..120.0,
        1 => prop_oneof![174.0f32..180.0, -180.0f32..-174.0],
    ];
    let step = (turn, 8.0f32..60.0);
    (24i32..=40, 24i32..=40)
        .prop_flat_map(move |(w, h)| {
            let miter = prop_oneof![2 => Just(10.0f32), 1 => Just(4.0f32), 1 => 1.0f32..12.0];
            let xf = prop_oneof![
                3 => Just(IDENT),
                1 => (0.0f32..360.0, 0.5f32..2.0).prop_map(|(a, s)| { let r = (a as f64).to_radians(); let (c, sn) = ((r.cos() * s as f64) as f32, (r.sin() * s as f64) as f32); [c, sn, -sn, c, 0.0, 0.0] }),
            ];
            // the first interior vertex is placed on the surface; the path runs through it
            (Just((w, h)), (0.2f32..0.8, 0.2f32..0.8), 0.0f32..360.0, 8.0f32..60.0, prop::collection::vec(step.clone(), 1..=3), any::<bool>(), 30.0f32..110.0, 0u8..3, 0u8..3, miter, xf)
        })
        .prop_map(|((w, h), (fx, fy), a0, l0, steps, closed, width, cap, join, miter, xf)| {
            // device position of the first interior vertex -> user space
            let dev = (fx as f64 * w as f64, fy as f64 * h as f64);
            let inv = xf_inverse64(&xf).unwrap_or([1.0, 0.0, 0.0, 1.0, 0.0, 0.0]);
            let v = (inv[0] * dev.0 + inv[2] * dev.1 + inv[4], inv[1] * dev.0 + inv[3] * dev.1 + inv[5]);
            let mut dir = a0 as f64;
            let start = (v.0 - dir.to_radians().cos() * l0 as f64, v.1 - dir.to_radians().sin() * l0 as f64);
            let mut ops = vec![POp::M(start.0 as f32, start.1 as f32), POp::L(v.0 as f32, v.1 as f32)];
            let (mut cx, mut cy) = v;
            for (t, l) in steps {
                dir += t as f64;
                cx += dir.to_radians().cos() * l as f64;
                cy += dir.to_radians().sin() * l as f64;
                ops.push(POp::L(cx as f32, cy as f32));
            }
            if closed {
                ops.push(POp::Z);
            }
            let s = smax(&xf) as f32;
            Case { w, h, path: PathSpec { ops, evenodd: (width.to_bits() >> 2) % 3 == 0 }, style: StyleSpec { width: Fl(width / s), cap, join, miter: Fl(miter), dash: vec![], offset: Fl(0.0) }, xf }
        })
        .boxed()
}

pub fn property(ctx: &Ctx) -> Property {
    let seams_open = ctx.excluded(SEAM_KEY);
    Property {
        id: "C04",
        rule: "cases: 1-3 subpaths built by turtle steps (turning angles uniform, 0/45/90/135/180 degrees, within 1 degree of 0/180, and exact retraces to the previous point; segment lengths 0.25..14 px plus exact duplicate points), open or closed, or quadratic/cubic subpaths (curve class), widths 0.3..12 plus 0, -1 and NaN, all 3 caps x 3 joins, miter limits 0..12 incl. exactly 0 (and -0), 0.5, sqrt2, 2, 4, 10, and 60/200/400, transforms identity / translation / rotation x uniform scale 0.3-4 / anisotropic (condition <= 20, curves <= 4) / shear, optionally with user space zoomed (units 4096 or 65536 times smaller, or 64 times larger, under a correspondingly scaled CTM), white on transparent 24..40 px surfaces. part wide: polylines of 2-4 segments of 8..60 px through a vertex on the surface, device widths 30..110 px, turning angles mostly 0.2..6 degrees of either sign (also 0, general, near 180), open or closed, all caps/joins, identity or rotation x scale; same oracle (a join wedge of a shallow bend is only wider than the margin when the stroke is this wide). Oracle: union of convex pieces built from the statement (segment rectangles; round sector / bevel triangle / miter quadrilateral or bevel by the miter-limit test on the outer side of every interior and closing vertex; caps at both ends of open subpaths) in user space, exact membership through the inverse transform, union boundary sampled at 1/16 px; a pixel whose whole area is more than the margin (0.5 px polylines, 1 px curves) inside must be exactly 0xffffffff, more than the margin outside exactly 0; width <= 0 or NaN paints nothing. Non-trivial: >=1 must-paint and >=1 must-stay pixel; distinct by hash of the case.",
        assumptions: vec![
            "a band of margin + half a pixel diagonal + 1/32 px around the region boundary is not judged",
            "threshold decisions (miter limit within 1e-3, turning angle within 1e-3 of 0/180 degrees) are taken the smaller way for 'must paint' and the larger way for 'must stay'",
            "curves: pieces are built on an f64 flattening accurate to 0.01 px; the 1 px margin absorbs raqote's 0.1/sqrt(det) flattening",
        ],
        parts: vec![part("region", 8_000, 250_000, strategy, move |c| check(c, seams_open)), part("wide", 3_000, 100_000, wide_strategy, move |c| check(c, seams_open)), part("overshoot", 1_500, 50_000, overshoot_strategy, move |c| check(c, seams_open))],
        min_class_fraction: vec![
            ("region", "join-visible", 0.2),
            ("region", "cap-visible", 0.15),
            ("region", "curves", 0.2),
            ("region", "closed-subpath", 0.2),
            ("region", "closed-with-explicit-return-to-start", 0.03),
            ("region", "width<=0-or-nan", 0.03),
            ("region", "exact-retrace-with-round-join", 0.01),
            ("region", "xf:general", 0.1),
            ("region", "ctm-scale>=1000", 0.05),
            ("region", "evenodd-path-with-visible-join", 0.03),
            ("region", "near-reversal-under-a-miter-limit-of-60-or-more", 0.003),
            ("region", "miter-join-with-a-limit-of-exactly-zero", 0.01),
            ("region", "exact-right-angle-with-miter-limit-between-1-and-sqrt2", 0.003),
        ],
        panic_is_violation: false,
    }
}
