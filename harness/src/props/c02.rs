//! C02 — drawing never changes pixels outside shape, clip and surface.

use crate::gen::*;
use crate::runner::*;
use crate::scene::*;
use crate::tree::*;
use proptest::prelude::*;
use raqote::*;
use serde::{Deserialize, Serialize};

#[derive(Clone, Debug, Serialize, Deserialize)]
pub struct Case {
    pub w: i32,
    pub h: i32,
    pub init: Vec<u32>,
    pub xf: Xf,
    /// clip pushes (under `xf`)
    pub clips: Vec<Op>,
    pub layer: Option<(Fl, u8)>,
    pub draw: Op,
    /// with a layer open: how many of the clips are popped *before* pop_layer (pops need not nest with the layer)
    #[serde(default)]
    pub early_pop: u8,
}

const WHITE: u32 = 0xffff_ffff;

/// the same geometry drawn with an opaque white source, SrcOver, alpha 1 (coverage probe)
fn whitened(op: &Op) -> Option<Op> {
    let o = |o: &Opts| Opts { blend: SRC_OVER, alpha: Fl(1.0), aa: o.aa };
    Some(match op {
        Op::Fill(p, _, op) => Op::Fill(p.clone(), SrcSpec::Solid(WHITE), o(op)),
        Op::FillRect(x, y, w, h, _, op) => Op::FillRect(*x, *y, *w, *h, SrcSpec::Solid(WHITE), o(op)),
        Op::Stroke(p, _, st, op) => Op::Stroke(p.clone(), SrcSpec::Solid(WHITE), st.clone(), o(op)),
        Op::Mask(_, x, y, m) => Op::Mask(SrcSpec::Solid(WHITE), *x, *y, m.clone()),
        Op::DrawImageAt(x, y, img, op) => Op::DrawImageAt(*x, *y, ImageSpec { w: img.w, h: img.h, data: vec![WHITE; img.data.len()] }, o(op)),
        Op::DrawImageSized(w, h, x, y, img, op) => Op::DrawImageSized(*w, *h, *x, *y, ImageSpec { w: img.w, h: img.h, data: vec![WHITE; img.data.len()] }, o(op)),
        Op::Clear(_) => return None,
        _ => return None,
    })
}

pub fn check(c: &Case) -> CheckResult {
    let mut o = Outcome::new();
    o.fp = fp_of(c);
    let (w, h) = (c.w, c.h);
    let n = (w * h) as usize;
    let t = to_transform(&c.xf);
    // ---- zero-coverage set Z
    let mut z = vec![false; n];
    let mut bbox_like = vec![false; n]; // pixels inside the clip bounds (for the non-triviality rule)
    let mut clip_ctx = ClipCtx::default();
    for cl in &c.clips {
        match cl {
            Op::PushClipRect(..) => {
                clip_ctx.push(cl, &c.xf, w, h);
            }
            Op::PushClipPath(p) => {
                // coverage of the clip path: exact model when available, else the alpha of an opaque white
                // fill through that clip alone on a fresh transparent surface (compositing route not under test)
                match exact_cov(p, &c.xf, w, h, true) {
                    Some(cov) => {
                        for i in 0..n {
                            if cov[i].iter().all(|b| *b == 0) {
                                z[i] = true;
                            }
                        }
                        o.class("clip-coverage:exact-model");
                    }
                    None => {
                        let mut probe = DrawTarget::new(w, h);
                        probe.set_transform(&t);
                        probe.push_clip(&p.build());
                        probe.set_transform(&Transform::identity());
                        probe.fill_rect(-1.0, -1.0, w as f32 + 2.0, h as f32 + 2.0, &Source::Solid(solid_of(WHITE)), &DrawOptions::new());
                        for (i, px) in probe.get_data().iter().enumerate() {
                            if *px == 0 {
                                z[i] = true;
                            }
                        }
                        o.class("clip-coverage:probe-render");
                        // ... and, independently of any rendering, the pixels that the f64 outline puts outside
                        if xf_det(&c.xf) != 0.0 {
                            for (i, out) in crate::geom::certainly_outside(p, &c.xf, w, h).iter().enumerate() {
                                z[i] |= *out;
                            }
                        }
                    }
                }
            }
            _ => unreachable!(),
        }
    }
    for i in 0..n {
        let inr = clip_ctx.in_rects(i as i32 % w, i as i32 / w);
        if !inr {
            z[i] = true;
        }
        bbox_like[i] = inr;
    }
    let z_clip = z.clone();
    // shape coverage
    let singular = xf_det(&c.xf) == 0.0;
    let mut shape_known = true;
    let draws_nothing = singular && !matches!(c.draw, Op::Clear(_));
    if draws_nothing && !matches!(c.draw, Op::Mask(..)) {
        // a non-invertible transform draws nothing at all (C11); mask() under a singular transform is left to C11
        for v in z.iter_mut() {
            *v = true;
        }
    } else if let Some(m) = model_draw(&c.draw, &c.xf, w, h) {
        for i in 0..n {
            if m.ms[i].iter().all(|b| *b == 0) {
                z[i] = true;
            }
        }
        o.class("shape-coverage:exact-model");
    } else if let Some(wop) = whitened(&c.draw) {
        let mut probe = DrawTarget::new(w, h);
        probe.set_transform(&t);
        apply(&mut probe, &wop);
        for (i, px) in probe.get_data().iter().enumerate() {
            if *px == 0 {
                z[i] = true;
            }
        }
        o.class("shape-coverage:probe-render");
        // ... and its own stroker: for undashed strokes of polylines the region model of C04 says, independently,
        // which pixels lie outside the stroke by more than the margin
        if let Op::Stroke(p, _, st, _) = &c.draw {
            // (curves: round joins only, margin 1 px: with round joins the stroke of any flattening is exactly the set of
            // points within half a width of the polyline, which lies within the flattening tolerance of the curve; bevels
            // and miters at a tight bend depend on where the flattening puts its vertices)
            let curved = p.has_curves();
            // dashed polylines: the 'on' pieces of C09's arc-length model, stroked as open polylines (margin 0.75 px;
            // not judged when a dash boundary falls within rounding of a vertex)
            if !st.dash.is_empty() && !curved && st.width.0 > 0.0 && xf_det(&c.xf) != 0.0 && st.offset.0.abs() < 1.0e4 {
                let polys = crate::stroke_model::polylines(p, 0.01);
                let dashes: Vec<f32> = st.dash.iter().map(|d| d.0).collect();
                if dashes.iter().all(|d| *d >= 0.0 && d.is_finite()) {
                    if let Some(dm) = super::c09::dash_model(&polys, &dashes, st.offset.0) {
                        if !dm.boundary_near_vertex {
                            let pieces: Vec<crate::stroke_model::Poly> = dm.pieces.iter().map(|d| crate::stroke_model::Poly { pts: d.poly.pts.clone(), closed: d.poly.closed }).collect();
                            if let Some(v) = crate::stroke_model::verdicts(&pieces, st.width.0 as f64, st.cap, st.join, st.miter.0 as f64, &c.xf, w, h, 0.75) {
                                let mut extra = 0;
                                for i in 0..n {
                                    if v[i] == 0 {
                                        if !z[i] {
                                            extra += 1;
                                        }
                                        z[i] = true;
                                    }
                                }
                                o.class_if(extra > 0, "zero-coverage-from-dash-model-only");
                                o.class("shape-coverage:dash-model");
                            }
                        }
                    }
                }
            }
            if st.dash.is_empty() && (!curved || st.join == 1) && st.width.0 > 0.0 && xf_det(&c.xf) != 0.0 {
                let unit = (xf_det(&c.xf).abs()).sqrt().max(1e-6);
                let polys = crate::stroke_model::polylines(p, 0.01 / unit);
                if let Some(v) = crate::stroke_model::verdicts(&polys, st.width.0 as f64, st.cap, st.join, st.miter.0 as f64, &c.xf, w, h, if curved { 1.0 } else { 0.5 }) {
                    let mut extra = 0;
                    for i in 0..n {
                        if v[i] == 0 {
                            if !z[i] {
                                extra += 1;
                            }
                            z[i] = true;
                        }
                    }
                    o.class_if(extra > 0, "zero-coverage-from-stroke-region-only");
                    o.class("shape-coverage:stroke-region-model");
                }
            }
        }
        // the probe trusts the library's own rasterisation of curves; the f64 outline does not
        if let Op::Fill(p, ..) = &c.draw {
            let mut extra = 0;
            for (i, out) in crate::geom::certainly_outside(p, &c.xf, w, h).iter().enumerate() {
                if *out && !z[i] {
                    extra += 1;
                }
                z[i] |= *out;
            }
            o.class_if(extra > 0, "zero-coverage-from-f64-outline-only");
            o.class("shape-coverage:f64-outline");
        }
    } else {
        shape_known = matches!(c.draw, Op::Clear(_));
    }
    let _ = shape_known;
    // ---- the call under test
    let mut dt = new_target(w, h, &c.init);
    dt.set_transform(&t);
    for cl in &c.clips {
        apply(&mut dt, cl);
    }
    harmless_prelude(&mut dt, (w * 7 + h * 13 + c.clips.len() as i32 * 5) as u32 + c.early_pop as u32);
    let before = dt.get_data().to_vec();
    if before != c.init {
        return Err("pushing clips changed pixels".into());
    }
    let mut zero_in_bounds = 0;
    match &c.layer {
        None => {
            apply(&mut dt, &c.draw);
            let after = dt.get_data();
            for i in 0..n {
                if z[i] {
                    o.judged += 1;
                    if after[i] != before[i] {
                        return Err(format!(
                            "{} changed pixel ({},{}) from {} to {} although {} (blend {:?})",
                            c.draw.kind(),
                            i as i32 % w,
                            i as i32 / w,
                            hex(before[i]),
                            hex(after[i]),
                            if z_clip[i] { "it lies outside the clip" } else { "the shape's coverage there is zero" },
                            blend_of(&c.draw).map(blend_name)
                        ));
                    }
                    if bbox_like[i] && before[i] != 0 {
                        zero_in_bounds += 1;
                    }
                } else {
                    o.undecided += 1;
                }
            }
        }
        Some((op, bl)) => {
            dt.push_layer_with_blend(op.0, BLEND_MODES[*bl as usize]);
            apply(&mut dt, &c.draw);
            let during = dt.get_data();
            for i in 0..n {
                o.judged += 1;
                if during[i] != before[i] {
                    return Err(format!("{} into an open layer changed base-surface pixel ({},{}) from {} to {}", c.draw.kind(), i as i32 % w, i as i32 / w, hex(before[i]), hex(during[i])));
                }
            }
            // clips popped before the layer: the layer still only holds what was drawn through the clip in force
            // while it was open, so pixels outside that clip have zero coverage by the layer.  (With an erasing
            // layer blend mode the two readings "zero coverage" and "composited through the clip current at pop
            // time" disagree about those pixels; they are then left unjudged.)
            let early = (c.early_pop as usize).min(c.clips.len());
            for _ in 0..early {
                dt.pop_clip();
            }
            dt.pop_layer();
            let after = dt.get_data();
            let erasing_layer = matches!(*bl, 1 | 2 | 5 | 6 | 7 | 10);
            o.class_if(early > 0, "clips-popped-before-layer");
            // pop_layer is itself a drawing call: its shape is the layer (= clip bounds)
            for i in 0..n {
                if z_clip[i] && !(early > 0 && erasing_layer) {
                    o.judged += 1;
                    if after[i] != before[i] {
                        return Err(format!("pop_layer({}) changed pixel ({},{}) outside the clip from {} to {}", blend_name(*bl), i as i32 % w, i as i32 / w, hex(before[i]), hex(after[i])));
                    }
                    if before[i] != 0 {
                        zero_in_bounds += 1;
                    }
                }
            }
            o.class("layer-open");
        }
    }
    let mode = blend_of(&c.draw).unwrap_or(SRC_OVER);
    let translucent = !matches!(src_of(&c.draw), Some(SrcSpec::Solid(p)) if p >> 24 == 255);
    o.nontrivial = zero_in_bounds > 0 && (mode != SRC_OVER || translucent || c.layer.is_some());
    o.class(c.draw.kind());
    o.class_if(mode != SRC_OVER, "non-srcover");
    o.class_if(matches!(mode, 1 | 2 | 5 | 6 | 7 | 10), "erasing-mode");
    o.class_if(!c.clips.is_empty(), "clipped");
    {
        let cont = |p: &PathSpec| p.ops.windows(2).any(|w| matches!(w[0], POp::Z) && matches!(w[1], POp::L(..)));
        o.class_if(matches!(&c.draw, Op::Fill(p, ..) if cont(p)) || c.clips.iter().any(|cl| matches!(cl, Op::PushClipPath(p) if cont(p))), "polygon-continued-after-close");
    }
    o.class_if(c.w > 256 || c.h > 256, "surface-beyond-256");
    {
        o.class_if(matches!(&c.draw, Op::Stroke(p, ..) if p.has_curves()) && xf_det(&c.xf) < 0.0 && xf_det(&c.xf).abs() > 900.0, "curved-stroke-under-a-mirroring-magnifying-transform");
        let far_in = |p: &PathSpec| p.points().iter().any(|q| q.0.abs() > 2000.0 || q.1.abs() > 2000.0);
        let f = matches!(&c.draw, Op::Fill(p, ..) if far_in(p)) || c.clips.iter().any(|cl| matches!(cl, Op::PushClipPath(p) if far_in(p)));
        o.class_if(f, "polygon-with-a-vertex-beyond-2000px");
    }
    o.class_if(c.clips.iter().any(|c| matches!(c, Op::PushClipPath(_))), "clip-path");
    o.class(classify_xf(&c.xf));
    Ok(o)
}

pub fn blend_of(op: &Op) -> Option<u8> {
    match op {
        Op::Fill(_, _, o) | Op::FillRect(_, _, _, _, _, o) | Op::Stroke(_, _, _, o) | Op::DrawImageAt(_, _, _, o) | Op::DrawImageSized(_, _, _, _, _, o) => Some(o.blend),
        Op::Clear(_) => Some(MODE_SRC),
        Op::Mask(..) => Some(SRC_OVER),
        _ => None,
    }
}

pub fn src_of(op: &Op) -> Option<SrcSpec> {
    match op {
        Op::Fill(_, s, _) | Op::FillRect(_, _, _, _, s, _) | Op::Stroke(_, s, _, _) | Op::Mask(s, ..) => Some(s.clone()),
        Op::Clear(c) => Some(SrcSpec::Solid(*c)),
        _ => None,
    }
}

pub fn strategy(ctx: &Ctx) -> BoxedStrategy<Case> {
    let ctx = ctx.clone();
    // mostly small surfaces; one in twenty has rows or columns beyond 256 pixels (narrowed strides, byte counters)
    prop_oneof![18 => (3i32..=14, 3i32..=14), 1 => (257i32..=300, 3i32..=4), 1 => (3i32..=4, 257i32..=300)]
        .prop_flat_map(move |(w, h)| {
            let free = Domain::free(w, h);
            let exact = Domain::exact(w, h);
            let draw = prop_oneof![3 => draw_op(&ctx, &free), 2 => draw_op(&ctx, &exact)];
            let clip = prop_oneof![1 => clip_push(&free), 1 => clip_push(&exact)];
            let xf = prop_oneof![4 => Just(IDENT), 2 => xf_qtrans(), 3 => xf_invertible(4.0), 1 => xf_singular()];
            (Just((w, h)), init_pixels(w, h), xf, prop::collection::vec(clip, 0..=3), prop::option::weighted(0.2, (alpha_f().prop_map(Fl), blend_biased())), draw, (0u8..3, 0usize..6))
        })
        .prop_map(|((w, h), init, xf, mut clips, layer, mut draw, (sel, k))| {
            // far vertices: under the identity or a quarter translation, one polygon in five (fill or clip path,
            // quarter-grid vertices) gets one vertex moved 2048..3000 px off the surface: its edges are thousands of
            // pixels wide and tall, the shape on the surface is still known exactly from the 4x4 model
            if is_qtrans(&xf) {
                let far = |p: &mut PathSpec, salt: usize| {
                    let n = p.ops.len();
                    if n == 0 || !crate::raster4::on_quarter_grid(p) || (k + salt + n) % 5 != 0 {
                        return;
                    }
                    let d = 2048.0 + ((k * 37 + salt * 11 + n * 5) % 953) as f32;
                    let i = (k + salt) % n;
                    let (dx, dy) = match (k + salt + n) % 4 {
                        0 => (-d, -d * 0.75),
                        1 => (d, -d),
                        2 => (-d * 0.5, d),
                        _ => (d, d * 0.25),
                    };
                    let q = |v: f32| (v * 4.0).round() / 4.0;
                    if let POp::M(x, y) | POp::L(x, y) = &mut p.ops[i] {
                        *x = q(*x + dx);
                        *y = q(*y + dy);
                    }
                };
                if let Op::Fill(p, ..) = &mut draw {
                    far(p, 1);
                }
                for (j, cl) in clips.iter_mut().enumerate() {
                    if let Op::PushClipPath(p) = cl {
                        far(p, 2 + j);
                    }
                }
            }
            // continued after close: one closed polygon in six (fill or clip path) goes on after its close without a
            // move_to, by two more vertices (off the quarter grid, so the f64 outline and the probe render judge it):
            // the continuation starts at the polygon's first point and is closed implicitly
            {
                let cont = |p: &mut PathSpec, salt: usize| {
                    if (k + salt + p.ops.len()) % 6 != 0 || !matches!(p.ops.last(), Some(POp::Z)) || p.has_curves() {
                        return;
                    }
                    let pts = p.points();
                    if pts.len() < 3 {
                        return;
                    }
                    let (s0, a, b) = (pts[0], pts[1], pts[2]);
                    p.ops.push(POp::L(2.0 * s0.0 - a.0 + 0.13, 2.0 * s0.1 - a.1 + 0.07));
                    p.ops.push(POp::L(2.0 * s0.0 - b.0 + 0.13, 2.0 * s0.1 - b.1 - 0.21));
                };
                if let Op::Fill(p, ..) = &mut draw {
                    cont(p, 3);
                }
                for (j, cl) in clips.iter_mut().enumerate() {
                    if let Op::PushClipPath(p) = cl {
                        cont(p, 5 + j);
                    }
                }
            }
            // mirrored and magnified: one undashed stroke in three is described in user units 32 or 100 times smaller
            // under a transform that also mirrors x (negative determinant): the device geometry is the same
            let mut xf = xf;
            if let Op::Stroke(p, _, st, _) = &mut draw {
                if xf == IDENT && st.dash.is_empty() && clips.iter().all(|cl| matches!(cl, Op::PushClipRect(..))) && (k + p.ops.len()) % 3 == 0 {
                    let z = if k % 2 == 0 { 32.0f32 } else { 100.0 };
                    let tx = (w / 2) as f32;
                    let m = |x: f32, y: f32| ((tx - x) / z, y / z);
                    for op in p.ops.iter_mut() {
                        *op = match *op {
                            POp::M(x, y) => { let q = m(x, y); POp::M(q.0, q.1) }
                            POp::L(x, y) => { let q = m(x, y); POp::L(q.0, q.1) }
                            POp::Q(a, b, x, y) => { let (q, r) = (m(a, b), m(x, y)); POp::Q(q.0, q.1, r.0, r.1) }
                            POp::C(a, b, cc, d, x, y) => { let (q, r, t) = (m(a, b), m(cc, d), m(x, y)); POp::C(q.0, q.1, r.0, r.1, t.0, t.1) }
                            POp::Z => POp::Z,
                        };
                    }
                    st.width = Fl(st.width.0 / z);
                    if p.has_curves() {
                        // (round joins: the only ones for which the stroke of a curve is known independently of
                        // the flattening)
                        st.join = 1;
                    }
                    xf = [-z, 0.0, 0.0, z, tx, 0.0];
                }
            }
            // one layer case in three pops some or all of its clips before the layer
            let early_pop = if layer.is_some() && !clips.is_empty() && sel == 0 { 1 + (k % clips.len()) as u8 } else { 0 };
            Case { w, h, init, xf, clips, layer, draw, early_pop }
        })
        .boxed()
}

pub fn property(ctx: &Ctx) -> Property {
    let c = ctx.clone();
    Property {
        id: "C02",
        rule: "cases: 3..14 px surfaces (one in twenty 257..300 px long or tall) with random non-empty premultiplied contents, a transform (identity / quarter translation / general invertible / singular), 0-3 clips (rects of every relation to the surface, polygon and curved paths), optionally an open layer (in a third of the layer cases some or all clips are popped before pop_layer), then exactly one drawing call of each kind (fill, fill_rect, stroke, clear, mask, draw_image_at, draw_image_with_size_at; pop_layer when a layer is open) with any of 28 modes, any source, alpha, AA mode; shapes that do not cover the surface. Oracle: before/after snapshots; every pixel of the zero-coverage set (outside a pushed clip rectangle, zero coverage in a pushed clip path, zero coverage of the shape; while a layer is open: the whole base surface) must be bit-identical. Coverage comes from the exact 4x4 model for grid polygons, otherwise from an opaque-white SrcOver render of the same geometry on a fresh surface. Non-trivial: the zero-coverage set holds >=1 pixel inside the clip bounds with non-zero previous value, and (mode != SrcOver or source not opaque solid or layer open); distinct by hash of the case.",
        assumptions: vec![
            "for shapes the exact model does not cover (curves, strokes, general transforms) zero coverage is read from a white SrcOver render of the same geometry: shares the rasteriser (judged by C01/C04/C08), not the compositing route under test",
            "mask() under a singular transform is not judged here (C11 accepts either reading)",
        ],
        parts: vec![part("one-call", 160_000, 2_000_000, move || strategy(&c), check)],
        min_class_fraction: vec![("one-call", "erasing-mode", 0.15), ("one-call", "polygon-continued-after-close", 0.01), ("one-call", "clipped", 0.4), ("one-call", "op:stroke", 0.05), ("one-call", "op:mask", 0.05), ("one-call", "layer-open", 0.1), ("one-call", "clips-popped-before-layer", 0.02), ("one-call", "clip-path", 0.2)],
        panic_is_violation: false,
    }
}
