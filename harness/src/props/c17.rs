//! C17 — contains_point agrees with the fill rule.

use crate::gen::*;
use crate::runner::*;
use crate::scene::*;
use proptest::prelude::*;
use raqote::*;
use serde::{Deserialize, Serialize};

#[derive(Clone, Debug, Serialize, Deserialize)]
pub struct LatticeCase {
    /// integer vertices in [-6,6]
    pub path: PathSpec,
    /// the path and the query points are multiplied by 2^scale_log2 (exact in f32): the answer must not change
    #[serde(default)]
    pub scale_log2: i32,
    /// the flattening tolerance handed to contains_point (before scaling); it only concerns curves, so for these
    /// polygons the answer must not depend on it, however large it is against the polygon's edges
    #[serde(default)]
    pub tol: Option<Fl>,
}

/// Walk ops with the statement's cursor rule; returns segments (doubled integer coordinates) of the
/// implicitly closed subpaths.
fn segments2(p: &PathSpec) -> Vec<((i64, i64), (i64, i64))> {
    let d = |v: f32| (v as f64 * 2.0).round() as i64;
    let mut segs = Vec::new();
    let mut first: Option<(i64, i64)> = None;
    let mut cur: Option<(i64, i64)> = None;
    let close = |segs: &mut Vec<_>, first: Option<(i64, i64)>, cur: Option<(i64, i64)>| {
        if let (Some(f), Some(c)) = (first, cur) {
            segs.push((c, f));
        }
    };
    for op in &p.ops {
        match *op {
            POp::M(x, y) => {
                close(&mut segs, first, cur);
                first = Some((d(x), d(y)));
                cur = first;
            }
            POp::L(x, y) => {
                let pt = (d(x), d(y));
                match cur {
                    Some(c) => segs.push((c, pt)),
                    None => first = Some(pt),
                }
                cur = Some(pt);
            }
            POp::Z => {
                close(&mut segs, first, cur);
                cur = first;
            }
            _ => panic!("lattice part is polygons only"),
        }
    }
    close(&mut segs, first, cur);
    segs
}

/// (on a non-degenerate segment, only on a degenerate segment, winding number)
fn exact(segs: &[((i64, i64), (i64, i64))], q: (i64, i64)) -> (bool, bool, i32) {
    let mut on = false;
    let mut on_degenerate = false;
    let mut wn = 0;
    for &((x1, y1), (x2, y2)) in segs {
        if (x1, y1) == (x2, y2) {
            if q == (x1, y1) {
                on_degenerate = true;
            }
            continue;
        }
        let cross = (x2 - x1) * (q.1 - y1) - (q.0 - x1) * (y2 - y1);
        if cross == 0 && q.0 >= x1.min(x2) && q.0 <= x1.max(x2) && q.1 >= y1.min(y2) && q.1 <= y1.max(y2) {
            on = true;
        }
        if y1 <= q.1 && q.1 < y2 && cross > 0 {
            wn += 1;
        } else if y2 <= q.1 && q.1 < y1 && cross < 0 {
            wn -= 1;
        }
    }
    (on, on_degenerate && !on, wn)
}

pub fn check_lattice(c: &LatticeCase) -> CheckResult {
    let k = (2.0f32).powi(c.scale_log2);
    let scaled = PathSpec {
        ops: c
            .path
            .ops
            .iter()
            .map(|op| match *op {
                POp::M(x, y) => POp::M(x * k, y * k),
                POp::L(x, y) => POp::L(x * k, y * k),
                other => other,
            })
            .collect(),
        evenodd: c.path.evenodd,
    };
    let path = scaled.build();
    let segs = segments2(&c.path);
    let mut o = Outcome::new();
    o.fp = fp_of(c);
    let verts: Vec<(i64, i64)> = segs.iter().flat_map(|s| [s.0, s.1]).collect();
    let mut nt = 0u64;
    for qy in -16i64..=16 {
        for qx in -16i64..=16 {
            let (on, degen, wn) = exact(&segs, (qx, qy));
            let inside = if c.path.evenodd { wn & 1 != 0 } else { wn != 0 };
            let got = path.contains_point(c.tol.map(|t| t.0).unwrap_or(0.1) * k, qx as f32 / 2.0 * k, qy as f32 / 2.0 * k);
            if degen && !inside {
                o.undecided += 1;
                continue;
            }
            let want = on || inside;
            o.judged += 1;
            if got != want {
                return Err(format!(
                    "contains_point({}, {}) [coordinates x 2^{}] = {} but exact integer winding says {} (on_segment={}, winding number={}, rule={})",
                    qx as f32 / 2.0,
                    qy as f32 / 2.0,
                    c.scale_log2,
                    got,
                    want,
                    on,
                    wn,
                    if c.path.evenodd { "EvenOdd" } else { "NonZero" }
                ));
            }
            let level = verts.iter().any(|v| v.1 == qy || v.0 == qx);
            if level || on {
                nt += 1;
            }
        }
    }
    o.nontrivial = nt > 0 && segs.len() >= 2;
    o.class_if(c.path.evenodd, "evenodd");
    o.class_if(c.scale_log2 < -8, "tiny-coordinates");
    o.class_if(c.tol.map(|t| t.0 >= 1.0).unwrap_or(false), "tolerance-larger-than-edges");
    o.class_if(c.scale_log2 > 8, "huge-coordinates");
    o.class_if(c.path.ops.iter().filter(|p| matches!(p, POp::M(..))).count() > 1, "multi-subpath");
    let mut after_close = false;
    for w in c.path.ops.windows(2) {
        if matches!(w[0], POp::Z) && matches!(w[1], POp::L(..)) {
            after_close = true;
        }
    }
    o.class_if(after_close, "line-after-close");
    o.class_if(!matches!(c.path.ops.first(), Some(POp::M(..))), "no-leading-moveto");
    o.class_if(segs.iter().any(|s| s.0 .1 == s.1 .1 && s.0 != s.1), "horizontal-edge");
    Ok(o)
}

fn lattice_strategy() -> BoxedStrategy<LatticeCase> {
    let v = || (-6i32..=6, -6i32..=6);
    let sub = (prop::collection::vec(v(), 2..=7), 0u8..6).prop_map(|(vs, style)| {
        let mut ops = Vec::new();
        for (i, p) in vs.iter().enumerate() {
            if i == 0 && style != 5 {
                ops.push(POp::M(p.0 as f32, p.1 as f32));
            } else {
                ops.push(POp::L(p.0 as f32, p.1 as f32));
            }
        }
        if style >= 2 {
            ops.push(POp::Z);
        }
        if style == 4 {
            // segments after close, without a move_to: start from the subpath's starting point
            ops.push(POp::L(vs[1].1 as f32, vs[0].0 as f32));
            ops.push(POp::L(vs[0].1 as f32, vs[1].0 as f32));
        }
        ops
    });
    let scale = prop_oneof![6 => Just(0i32), 1 => Just(-20i32), 1 => Just(-14i32), 1 => Just(-30i32), 1 => Just(14i32), 1 => -24i32..=16];
    let tol = prop_oneof![4 => Just(0.1f32), 1 => Just(1e-6f32), 1 => Just(1.0f32), 1 => Just(2.5f32), 1 => Just(20.0f32), 1 => 0.01f32..30.0];
    // a lone axis-aligned rectangle as PathBuilder::rect writes it (M L L L Z), started at any corner and run in
    // either direction, i.e. also with negative width or height: the shape a special-cased shortcut would target
    let rect = (-6i32..=5, -6i32..=5, 1i32..=8, 1i32..=8, 0usize..4, any::<bool>()).prop_map(|(x, y, w, h, start, reverse)| {
        let (x2, y2) = ((x + w).min(6), (y + h).min(6));
        let mut cs = vec![(x, y), (x2, y), (x2, y2), (x, y2)];
        if reverse {
            cs.reverse();
        }
        cs.rotate_left(start);
        let mut ops: Vec<POp> = cs.iter().enumerate().map(|(i, p)| if i == 0 { POp::M(p.0 as f32, p.1 as f32) } else { POp::L(p.0 as f32, p.1 as f32) }).collect();
        ops.push(POp::Z);
        vec![ops]
    });
    let subs = prop_oneof![7 => prop::collection::vec(sub, 1..=3), 1 => rect];
    (subs, any::<bool>(), scale, tol).prop_map(|(subs, evenodd, scale_log2, tol)| LatticeCase { path: PathSpec { ops: subs.concat(), evenodd }, scale_log2, tol: Some(Fl(tol)) }).boxed()
}

// ---------------------------------------------------------------------------
// agreement with fill

#[derive(Clone, Debug, Serialize, Deserialize)]
pub struct FillCase {
    /// user-space coordinates in [0,16]; rendered at scale 4 on a 64x64 surface
    pub path: PathSpec,
}

pub fn check_fill(c: &FillCase) -> CheckResult {
    let path = c.path.build();
    let mut dt = DrawTarget::new(64, 64);
    dt.set_transform(&Transform::scale(4.0, 4.0));
    dt.fill(&path, &Source::Solid(SolidSource { r: 255, g: 255, b: 255, a: 255 }), &DrawOptions::new());
    let px = dt.get_data();
    let mut o = Outcome::new();
    o.fp = fp_of(c);
    let a = |x: i32, y: i32| px[(y * 64 + x) as usize] >> 24;
    let (mut ins, mut outs) = (0, 0);
    // "deep inside" a pixel also means away from the true outline: a zero-winding sliver leaves the
    // pixels around it untouched although the outline (and its tolerance-flattened version) passes there
    let subs = crate::geom::walk(&c.path, &[4.0, 0.0, 0.0, 4.0, 0.0, 0.0]);
    let polys = crate::geom::fine(&subs, 0.1);
    let cls = crate::geom::classify_pixels(&polys, 64, 64, 3.0);
    for y in 1..63 {
        for x in 1..63 {
            let mut all255 = true;
            let mut all0 = true;
            for dy in -1..=1 {
                for dx in -1..=1 {
                    let v = a(x + dx, y + dy);
                    all255 &= v == 255;
                    all0 &= v == 0;
                }
            }
            if !(all255 || all0) || cls[(y * 64 + x) as usize].1 < 1.5 {
                o.undecided += 1;
                continue;
            }
            let (ux, uy) = ((x as f32 + 0.5) / 4.0, (y as f32 + 0.5) / 4.0);
            let got = path.contains_point(0.05, ux, uy);
            o.judged += 1;
            if all255 {
                ins += 1;
                if !got {
                    return Err(format!("contains_point({}, {}) = false but fill paints pixel ({},{}) and its whole 3x3 neighbourhood fully", ux, uy, x, y));
                }
            } else {
                outs += 1;
                if got {
                    return Err(format!("contains_point({}, {}) = true but fill leaves pixel ({},{}) and its whole 3x3 neighbourhood untouched", ux, uy, x, y));
                }
            }
        }
    }
    o.nontrivial = ins > 0 && outs > 0;
    o.class_if(c.path.has_curves(), "curves");
    {
        let mut cur: Option<(f32, f32)> = None;
        let mut hit = false;
        for op in &c.path.ops {
            match *op {
                POp::M(x, y) | POp::L(x, y) | POp::Q(_, _, x, y) => cur = Some((x, y)),
                POp::C(a, b, cc, d, x, y) => {
                    hit |= (cur == Some((a, b))) != ((cc, d) == (x, y));
                    cur = Some((x, y));
                }
                POp::Z => {}
            }
        }
        o.class_if(hit, "cubic-with-one-control-point-on-its-end-point");
    }
    o.class_if(c.path.ops.windows(2).any(|w| matches!(w[0], POp::Z) && matches!(w[1], POp::Q(..) | POp::C(..))), "curve-directly-after-close");
    o.class_if(c.path.evenodd, "evenodd");
    Ok(o)
}

fn fill_strategy() -> BoxedStrategy<FillCase> {
    prop_oneof![
        2 => curvy_path(16.0),
        1 => poly_path(16.0),
        1 => (curvy_path(16.0), poly_path(16.0)).prop_map(|(a, b)| PathSpec { ops: [a.ops, b.ops].concat(), evenodd: a.evenodd }),
        // a closed subpath continued without a move_to: whatever follows the close (a curve, mostly) starts at the
        // closed subpath's first point
        2 => (prop_oneof![poly_path(16.0), curvy_path(16.0)], curvy_path(16.0)).prop_map(|(a, b)| {
            let mut ops = a.ops;
            if !matches!(ops.last(), Some(POp::Z)) {
                ops.push(POp::Z);
            }
            ops.extend(b.ops.into_iter().skip(1));
            PathSpec { ops, evenodd: a.evenodd }
        }),
    ]
    .prop_map(|mut path| {
        // coincidences random floats never produce: a control point exactly on the curve's own start or end
        // point (one of them: the curve still bulges away from its chord)
        let mut cur: Option<(f32, f32)> = None;
        let mut start: Option<(f32, f32)> = None;
        for (k, op) in path.ops.iter_mut().enumerate() {
            match op {
                POp::M(x, y) => {
                    cur = Some((*x, *y));
                    start = cur;
                }
                POp::L(x, y) => {
                    if cur.is_none() {
                        start = Some((*x, *y));
                    }
                    cur = Some((*x, *y));
                }
                POp::Q(_, _, x, y) => cur = Some((*x, *y)),
                POp::C(a, b, cc, d, x, y) => {
                    match (k % 4, cur) {
                        (0, Some(p)) => {
                            *a = p.0;
                            *b = p.1;
                        }
                        (1, _) => {
                            *cc = *x;
                            *d = *y;
                        }
                        _ => {}
                    }
                    cur = Some((*x, *y));
                }
                POp::Z => cur = start,
            }
        }
        FillCase { path }
    })
    .boxed()
}


// ---------------------------------------------------------------------------
// far from the origin: the answer does not depend on where the shape sits

#[derive(Clone, Debug, Serialize, Deserialize)]
pub struct FarCase {
    /// a shape within [0,16]^2 ...
    pub path: PathSpec,
    /// ... moved by this much (whole units, up to +-3900)
    pub tx: f32,
    pub ty: f32,
    pub tol: f32,
}

/// f64 reference: winding number of the query against the f64 walker's outline of the *translated* path (its f32
/// coordinates as given to the library); queries closer to the outline than 0.3 + 8 x tolerance are not judged.
pub fn check_far(c: &FarCase) -> CheckResult {
    let mut o = Outcome::new();
    o.fp = fp_of(c);
    let mv = |x: f32, y: f32| (x + c.tx, y + c.ty);
    let moved = PathSpec {
        ops: c.path.ops.iter().map(|op| match *op {
            POp::M(x, y) => { let p = mv(x, y); POp::M(p.0, p.1) }
            POp::L(x, y) => { let p = mv(x, y); POp::L(p.0, p.1) }
            POp::Q(a, b, x, y) => { let (p, q) = (mv(a, b), mv(x, y)); POp::Q(p.0, p.1, q.0, q.1) }
            POp::C(a, b, cc, d, x, y) => { let (p, q, r) = (mv(a, b), mv(cc, d), mv(x, y)); POp::C(p.0, p.1, q.0, q.1, r.0, r.1) }
            POp::Z => POp::Z,
        }).collect(),
        evenodd: c.path.evenodd,
    };
    let path = moved.build();
    let subs = crate::geom::walk(&moved, &IDENT);
    let polys = crate::geom::fine(&subs, 0.02);
    let keep_off = 0.3 + 8.0 * c.tol as f64;
    let (mut ins, mut outs) = (0, 0);
    for j in 0..=44 {
        for i in 0..=44 {
            // a grid of 0.4 units over [-1,17]^2, off the lattice of whole and half units
            let q = (c.tx as f64 - 0.93 + i as f64 * 0.41, c.ty as f64 - 0.87 + j as f64 * 0.41);
            let (qx, qy) = (q.0 as f32, q.1 as f32);
            let q = (qx as f64, qy as f64);
            if crate::geom::dist_outline(&polys, q, true) < keep_off {
                o.undecided += 1;
                continue;
            }
            let wn = crate::geom::winding(&polys, q);
            let want = if c.path.evenodd { wn & 1 != 0 } else { wn != 0 };
            let got = path.contains_point(c.tol, qx, qy);
            o.judged += 1;
            if want {
                ins += 1
            } else {
                outs += 1
            }
            if got != want {
                return Err(format!(
                    "shape moved by ({}, {}): contains_point({}, {}, {}) = {} but the point has winding number {} about the outline and lies {:.3} units from it",
                    c.tx,
                    c.ty,
                    c.tol,
                    qx,
                    qy,
                    got,
                    wn,
                    crate::geom::dist_outline(&polys, q, true)
                ));
            }
        }
    }
    o.nontrivial = ins > 0 && outs > 0;
    o.class_if(c.path.has_curves(), "curves");
    o.class_if(c.tx.abs().max(c.ty.abs()) >= 2000.0, "more-than-2000-units-from-the-origin");
    o.class_if(c.tx == 0.0 && c.ty == 0.0, "at-the-origin");
    Ok(o)
}

fn far_strategy() -> BoxedStrategy<FarCase> {
    let t = || prop_oneof![1 => Just(0i32), 3 => 1000i32..=3900, 3 => -3900i32..=-1000, 1 => -1000i32..=1000];
    (prop_oneof![3 => curvy_path(16.0), 1 => poly_path(16.0)], t(), t(), prop::sample::select(vec![0.1f32, 0.05, 0.01, 0.25]))
        .prop_map(|(path, tx, ty, tol)| FarCase { path, tx: tx as f32, ty: ty as f32, tol })
        .boxed()
}

pub fn property(_ctx: &Ctx) -> Property {
    Property {
        id: "C17",
        rule: "part lattice: polygons with integer vertices in [-6,6] (1-3 subpaths, 2-7 vertices, open/closed, either orientation, self-intersecting, duplicates, segments after close, missing leading move_to), both rules, the whole configuration multiplied by 2^k (k = 0 mostly, -30..16: tiny and large coordinates, exact in f32), queried with flattening tolerances from 1e-6 to 30 (irrelevant for polygons: same answers required); every one of the 1089 half-integer lattice points of [-8,8]^2 is queried and compared with an exact integer winding number + on-segment computation (f32 arithmetic is exact on this lattice). part fill: float polygons and curves rendered at 4x on 64x64; contains_point must be true at centres of pixels whose 3x3 neighbourhood is fully painted and false where it is untouched. part far: float polygons and curves within 16 units moved by whole amounts of up to +-3900 units; a 45 x 45 grid of queries around the shape, judged against the f64 winding number of the moved outline wherever the query is more than 0.3 + 8 x tolerance from it (edge tests that multiply absolute coordinates lose the answer there). Non-trivial: polygon with >=2 segments and >=1 query level with a vertex or on a segment (lattice) / >=1 inside and >=1 outside judged pixel (fill); distinct by hash of the case.",
        assumptions: vec![
            "a query that coincides only with a zero-length segment (and is not inside) is not judged",
            "fill part: only pixel centres farther than 1.5 px from the f64 outline and with a uniform 3x3 neighbourhood are judged (contains_point flattens at its own tolerance)",
            "after close the cursor is the subpath's starting point (as in filling, C08/C16)",
        ],
        parts: vec![part("lattice", 16_000, 400_000, lattice_strategy, check_lattice), part("fill", 10_000, 200_000, fill_strategy, check_fill), part("far", 6_000, 150_000, far_strategy, check_far)],
        min_class_fraction: vec![("lattice", "line-after-close", 0.05), ("lattice", "horizontal-edge", 0.2), ("lattice", "tiny-coordinates", 0.1), ("lattice", "tolerance-larger-than-edges", 0.2), ("fill", "curves", 0.4)],
        panic_is_violation: false,
    }
}
