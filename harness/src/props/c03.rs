//! C03 — each pixel is composited by the blend mode's formula weighted by coverage.

use crate::compose::*;
use crate::gen::*;
use crate::raster4::*;
use crate::runner::*;
use crate::scene::*;
use proptest::prelude::*;
use raqote::*;
use serde::{Deserialize, Serialize};

#[derive(Clone, Debug, Serialize, Deserialize)]
pub enum Route {
    /// mask(src, x, y, m): SrcOver, alpha 1 by API
    Mask { x: i32, y: i32, mask: MaskSpec },
    /// antialiased (or aliased) fill of a quarter-grid polygon
    Fill { path: PathSpec, aa: bool },
    /// full coverage: fill_rect over the whole surface (fast path when unclipped)
    Rect,
    /// clear(colour): Src at full coverage through the current clip
    Clear,
}

#[derive(Clone, Debug, Serialize, Deserialize)]
pub enum ClipSpec {
    None,
    Rect(i32, i32, i32, i32),
    Path(PathSpec),
    /// rect pushed after path
    PathRect(PathSpec, (i32, i32, i32, i32)),
    /// path, then rect, then a second path: the clip coverage is the product of the two path coverages inside the rect
    PathRectPath(PathSpec, (i32, i32, i32, i32), PathSpec),
}

#[derive(Clone, Debug, Serialize, Deserialize)]
pub struct Case {
    pub w: i32,
    pub h: i32,
    pub init: Vec<u32>,
    pub src: SrcSpec,
    pub alpha: f32,
    pub mode: u8,
    pub route: Route,
    pub clip: ClipSpec,
    /// integer translation used by the position-independence replay (solid sources only)
    pub shift: (i32, i32),
    /// draw inside a layer pushed under this clip rectangle (layer origin = its top-left corner): the
    /// previous values are first written into the layer, the layer is popped with opacity 1 / SrcOver onto
    /// a transparent surface, so the surface then shows the layer's pixels
    #[serde(default)]
    pub layer: Option<(i32, i32, i32, i32)>,
    /// with `layer`: pop the layer's clip rectangle again before the draw, so that the draw meets a layer
    /// narrower than the surface with (possibly) an empty clip stack - fill_rect then takes its maskless fast path
    #[serde(default)]
    pub layer_clip_popped: bool,
    /// with `layer`: a second layer is pushed directly inside the first (same clip), and the draw happens in that one:
    /// a layer nested in a layer whose origin is not the surface's
    #[serde(default)]
    pub layer_nested: bool,
}

fn shift_path(p: &PathSpec, dx: i32, dy: i32) -> PathSpec {
    let (fx, fy) = (dx as f32, dy as f32);
    PathSpec {
        ops: p
            .ops
            .iter()
            .map(|o| match *o {
                POp::M(x, y) => POp::M(x + fx, y + fy),
                POp::L(x, y) => POp::L(x + fx, y + fy),
                other => other,
            })
            .collect(),
        evenodd: p.evenodd,
    }
}

/// For solid sources drawn by fill / fill_rect, one case in four describes the same device geometry in user units
/// 2^14 or 2^7 times smaller under the matching transform (scale 2^-k, then a whole-number translation): the
/// inverse transform then has entries of tens of thousands, which a solid colour has no use for.
fn tiny_units(c: &Case) -> Option<(f32, f32, f32)> {
    if !c.src.is_solid() || !matches!(c.route, Route::Fill { .. } | Route::Rect) {
        return None;
    }
    match (c.w * 7 + c.h * 3 + c.mode as i32) % 8 {
        0 => Some((16384.0, 2.0 + (c.w % 5) as f32, 2.0 + (c.h % 3) as f32)),
        1 => Some((128.0, 300.0 + c.w as f32, 280.0 + c.h as f32)),
        _ => None,
    }
}

/// run the case on a surface enlarged by (ox, oy) with everything translated by (ox, oy); returns the w x h window
fn render(c: &Case, ox: i32, oy: i32) -> Vec<u32> {
    let (bw, bh) = (c.w + ox, c.h + oy);
    let mut init = vec![0u32; (bw * bh) as usize];
    for y in 0..c.h {
        for x in 0..c.w {
            init[((y + oy) * bw + x + ox) as usize] = c.init[(y * c.w + x) as usize];
        }
    }
    let in_layer = c.layer.is_some() && ox == 0 && oy == 0;
    let mut dt = if in_layer { DrawTarget::new(bw, bh) } else { DrawTarget::from_vec(bw, bh, init.clone()) };
    // the window itself is a clip rect when shifted, so that the enlarged margin cannot matter
    if ox != 0 || oy != 0 {
        dt.push_clip_rect(irect(ox, oy, ox + c.w, oy + c.h));
    }
    if in_layer {
        let r = c.layer.unwrap();
        dt.push_clip_rect(irect(r.0, r.1, r.2, r.3));
        dt.push_layer(1.0);
        if c.layer_nested {
            dt.push_layer(1.0);
        }
        // previous values go into the layer: Src at full coverage writes the texels exactly
        let image = Image { width: bw, height: bh, data: &init };
        dt.draw_image_at(0.0, 0.0, &image, &DrawOptions { blend_mode: BlendMode::Src, alpha: 1.0, antialias: AntialiasMode::Gray });
        if c.layer_clip_popped {
            dt.pop_clip();
        }
    }
    match &c.clip {
        ClipSpec::None => {}
        ClipSpec::Rect(a, b, cc, d) => dt.push_clip_rect(irect(a + ox, b + oy, cc + ox, d + oy)),
        ClipSpec::Path(p) => dt.push_clip(&shift_path(p, ox, oy).build()),
        ClipSpec::PathRect(p, r) => {
            dt.push_clip(&shift_path(p, ox, oy).build());
            dt.push_clip_rect(irect(r.0 + ox, r.1 + oy, r.2 + ox, r.3 + oy));
        }
        ClipSpec::PathRectPath(p, r, q) => {
            dt.push_clip(&shift_path(p, ox, oy).build());
            dt.push_clip_rect(irect(r.0 + ox, r.1 + oy, r.2 + ox, r.3 + oy));
            dt.push_clip(&shift_path(q, ox, oy).build());
        }
    }
    harmless_prelude(&mut dt, (c.w * 7 + c.h * 13 + c.mode as i32 * 5 + (c.alpha.to_bits() >> 7) as i32) as u32);
    let opts = DrawOptions { blend_mode: BLEND_MODES[c.mode as usize], alpha: c.alpha, antialias: AntialiasMode::Gray };
    match &c.route {
        Route::Mask { x, y, mask } => {
            let m = Mask { width: mask.w, height: mask.h, data: mask.data.clone() };
            c.src.with(|s| dt.mask(s, x + ox, y + oy, &m));
        }
        Route::Fill { path, aa } => {
            let mut o = opts;
            if !*aa {
                o.antialias = AntialiasMode::None;
            }
            let p = shift_path(path, ox, oy);
            match tiny_units(c) {
                Some((k, tx, ty)) => {
                    // the same device geometry described in user units 2^k times smaller (exact: powers of two and
                    // whole-number translations); a solid colour does not depend on the transform
                    let q = PathSpec { ops: p.ops.iter().map(|op| match *op {
                        POp::M(x, y) => POp::M((x - tx) * k, (y - ty) * k),
                        POp::L(x, y) => POp::L((x - tx) * k, (y - ty) * k),
                        other => other,
                    }).collect(), evenodd: p.evenodd };
                    dt.set_transform(&Transform::new(1.0 / k, 0.0, 0.0, 1.0 / k, tx, ty));
                    c.src.with(|s| dt.fill(&q.build(), s, &o));
                    dt.set_transform(&Transform::identity());
                }
                None => c.src.with(|s| dt.fill(&p.build(), s, &o)),
            }
        }
        Route::Rect => match tiny_units(c) {
            Some((k, tx, ty)) => {
                dt.set_transform(&Transform::new(1.0 / k, 0.0, 0.0, 1.0 / k, tx, ty));
                c.src.with(|s| dt.fill_rect((ox as f32 - tx) * k, (oy as f32 - ty) * k, c.w as f32 * k, c.h as f32 * k, s, &opts));
                dt.set_transform(&Transform::identity());
            }
            None => c.src.with(|s| dt.fill_rect(ox as f32, oy as f32, c.w as f32, c.h as f32, s, &opts)),
        },
        Route::Clear => {
            if let SrcSpec::Solid(col) = &c.src {
                // clear() is not positioned by the current transform (C11): whatever transform is set, every pixel
                // inside the clip takes the colour
                let t = match (c.w * 3 + c.h * 5 + c.mode as i32) % 6 {
                    0 => Transform::translation(3.0, 0.0),
                    1 => Transform::scale(0.5, 0.5),
                    2 => Transform::new(0.0, 1.0, -1.0, 0.0, 2.5, 0.25),
                    3 => Transform::new(1.0, 2.0, 2.0, 4.0, 0.0, 0.0),
                    _ => Transform::identity(),
                };
                dt.set_transform(&t);
                dt.clear(solid_of(*col));
                dt.set_transform(&Transform::identity());
            }
        }
    }
    if in_layer {
        match &c.clip {
            ClipSpec::None => {}
            ClipSpec::PathRect(..) => {
                dt.pop_clip();
                dt.pop_clip();
            }
            ClipSpec::PathRectPath(..) => {
                dt.pop_clip();
                dt.pop_clip();
                dt.pop_clip();
            }
            _ => dt.pop_clip(),
        }
        dt.pop_layer();
        if c.layer_nested {
            dt.pop_layer();
        }
    }
    let data = dt.get_data();
    let mut out = Vec::with_capacity((c.w * c.h) as usize);
    for y in 0..c.h {
        for x in 0..c.w {
            out.push(data[((y + oy) * bw + x + ox) as usize]);
        }
    }
    out
}

/// effective (mode, alpha) of the route
fn effective(c: &Case) -> (u8, f32) {
    match c.route {
        Route::Mask { .. } => (SRC_OVER, 1.0),
        Route::Clear => (MODE_SRC, 1.0),
        _ => (c.mode, c.alpha),
    }
}

pub fn check(c: &Case) -> CheckResult {
    let mut o = Outcome::new();
    o.fp = fp_of(&(c.w, c.h, &c.src, c.alpha.to_bits(), c.mode, &c.route, &c.clip));
    let n = (c.w * c.h) as usize;
    let (mode, alpha) = effective(c);
    // the source colour per pixel: Src at full coverage on a scratch target (C12/C13 own its correctness)
    let s_img: Vec<u32> = {
        let mut sc = DrawTarget::new(c.w, c.h);
        let so = DrawOptions { blend_mode: BlendMode::Src, alpha, antialias: AntialiasMode::Gray };
        c.src.with(|s| sc.fill_rect(0.0, 0.0, c.w as f32, c.h as f32, s, &so));
        sc.get_data().to_vec()
    };
    // every source kind: the colour shaded under global alpha A must be the alpha-1 colour scaled by A
    // (within 1/255 per channel, +1 for the bilinear image path); in particular alpha 0 shades nothing
    if !c.src.is_solid() {
        let s_full: Vec<u32> = {
            let mut sc = DrawTarget::new(c.w, c.h);
            let so = DrawOptions { blend_mode: BlendMode::Src, alpha: 1.0, antialias: AntialiasMode::Gray };
            c.src.with(|s| sc.fill_rect(0.0, 0.0, c.w as f32, c.h as f32, s, &so));
            sc.get_data().to_vec()
        };
        let a255 = (alpha.max(0.0).min(1.0) * 255.0 + 0.5) as u32 as f64;
        for i in 0..n {
            let (f, g) = (ch(s_full[i]), ch(s_img[i]));
            for k in 0..4 {
                if (g[k] as f64 - f[k] as f64 * a255 / 255.0).abs() > 2.0 {
                    return Err(format!(
                        "{} source at pixel ({},{}): colour {} under global alpha {} is not the alpha-1 colour {} scaled by round(255 alpha)/255 (the source colour must be scaled by the global alpha at every pixel)",
                        c.src.kind(),
                        i as i32 % c.w,
                        i as i32 / c.w,
                        hex(s_img[i]),
                        alpha,
                        hex(s_full[i])
                    ));
                }
            }
        }
        o.class("alpha-scaling-of-shaded-source-checked");
    }
    if let SrcSpec::Solid(col) = &c.src {
        for (i, s) in s_img.iter().enumerate() {
            if !solid_scaled_ok(*col, alpha, *s) {
                return Err(format!("solid {} under global alpha {} is shaded as {} at pixel {} (expected colour x round(255 alpha)/255 within 1/255, exact at alpha 1)", hex(*col), alpha, hex(*s), i));
            }
        }
    }
    // coverage candidates per pixel
    let mut ms: Vec<Vec<u32>> = vec![vec![255]; n];
    match &c.route {
        Route::Mask { x, y, mask } => {
            for py in 0..c.h {
                for px in 0..c.w {
                    let (mx, my) = (px - x, py - y);
                    let m = if mx >= 0 && my >= 0 && mx < mask.w && my < mask.h { mask.data[(my * mask.w + mx) as usize] as u32 } else { 0 };
                    ms[(py * c.w + px) as usize] = vec![m];
                }
            }
        }
        Route::Fill { path, aa } => {
            let subs = subpaths_q(path);
            if *aa {
                let cov = coverage_aa(c.w, c.h, &subs, path.evenodd);
                for i in 0..n {
                    ms[i] = coverage_bytes(cov.kmin[i], cov.kmax[i]);
                }
            } else {
                let m = coverage_noaa(c.w, c.h, &subs, path.evenodd);
                for i in 0..n {
                    ms[i] = match m[i] {
                        0 => vec![0],
                        1 => vec![255],
                        _ => vec![0, 255],
                    };
                }
            }
        }
        Route::Rect | Route::Clear => {}
    }
    let mut cs: Vec<Vec<u32>> = vec![vec![255]; n];
    let mut apply_rect = |cs: &mut Vec<Vec<u32>>, r: (i32, i32, i32, i32)| {
        for py in 0..c.h {
            for px in 0..c.w {
                if !(px >= r.0 && px < r.2 && py >= r.1 && py < r.3) {
                    cs[(py * c.w + px) as usize] = vec![0];
                }
            }
        }
    };
    let mut apply_path = |cs: &mut Vec<Vec<u32>>, p: &PathSpec| {
        let cov = coverage_aa(c.w, c.h, &subpaths_q(p), p.evenodd);
        for i in 0..n {
            cs[i] = coverage_bytes(cov.kmin[i], cov.kmax[i]);
        }
    };
    match &c.clip {
        ClipSpec::None => {}
        ClipSpec::Rect(a, b, cc, d) => apply_rect(&mut cs, (*a, *b, *cc, *d)),
        ClipSpec::Path(p) => apply_path(&mut cs, p),
        ClipSpec::PathRect(p, r) => {
            apply_path(&mut cs, p);
            apply_rect(&mut cs, *r);
        }
        ClipSpec::PathRectPath(p, r, q) => {
            apply_path(&mut cs, p);
            let first = cs.clone();
            apply_path(&mut cs, q);
            // the product of the two path coverages, rounded either way (how the product is rounded is not
            // this property's subject)
            for i in 0..n {
                let mut v: Vec<u32> = Vec::new();
                for a in &first[i] {
                    for b in &cs[i] {
                        let pr = a * b;
                        for cand in [pr / 255, (pr + 127) / 255, (pr + 254) / 255] {
                            if !v.contains(&cand) {
                                v.push(cand);
                            }
                        }
                    }
                }
                cs[i] = v;
            }
            apply_rect(&mut cs, *r);
        }
    }
    let got = render(c, 0, 0);
    let mut kinds = std::collections::HashSet::new();
    for i in 0..n {
        if let Some(r) = c.layer {
            let (x, y) = (i as i32 % c.w, i as i32 / c.w);
            if !(x >= r.0 && x < r.2 && y >= r.1 && y < r.3) {
                if got[i] != 0 {
                    return Err(format!("pixel ({},{}) outside the layer's clip rectangle {:?} is {} on a transparent surface", x, y, r, hex(got[i])));
                }
                continue;
            }
        }
        match judge_pixel(mode, s_img[i], c.init[i], &ms[i], &cs[i], got[i], TOL) {
            Ok(k) => {
                kinds.insert(k);
                o.judged += 1;
            }
            Err(m) => return Err(format!("pixel ({},{}): {}", i as i32 % c.w, i as i32 / c.w, m)),
        }
    }
    // position independence: the same inputs translated by whole pixels give bit-identical results
    if c.src.is_solid() && c.shift != (0, 0) && c.layer.is_none() {
        let got2 = render(c, c.shift.0, c.shift.1);
        // an antialiased coverage byte may legitimately be 16k or 16k-1 depending on where the span
        // starts (C01), so for that route the translated render is judged by the formula again
        // instead of bit-compared
        let aa_fill = matches!(c.route, Route::Fill { aa: true, .. }) || matches!(c.clip, ClipSpec::Path(_) | ClipSpec::PathRect(..) | ClipSpec::PathRectPath(..));
        for i in 0..n {
            if aa_fill {
                if let Err(m) = judge_pixel(mode, s_img[i], c.init[i], &ms[i], &cs[i], got2[i], TOL) {
                    return Err(format!("translated by {:?}: pixel ({},{}): {}", c.shift, i as i32 % c.w, i as i32 / c.w, m));
                }
                continue;
            }
            if got2[i] != got[i] {
                return Err(format!(
                    "pixel ({},{}) = {} but the same inputs translated by {:?} whole pixels give {}: result depends on position",
                    i as i32 % c.w,
                    i as i32 / c.w,
                    hex(got[i]),
                    c.shift,
                    hex(got2[i])
                ));
            }
        }
        o.class("position-independence-checked");
    }
    o.nontrivial = kinds.contains("partial") || (mode != SRC_OVER && kinds.contains("w=1"));
    for k in kinds {
        o.class(match k {
            "w=0" => "px:w=0",
            "w=1" => "px:w=1",
            "partial" => "px:partial",
            _ => "px:srcover-transparent",
        });
    }
    o.class(match c.route {
        Route::Mask { .. } => "route:mask",
        Route::Fill { aa: true, .. } => "route:fill-aa",
        Route::Fill { aa: false, .. } => "route:fill-aliased",
        Route::Rect => "route:fill_rect",
        Route::Clear => "route:clear",
    });
    o.class_if(tiny_units(c).is_some(), "solid-drawn-in-tiny-user-units");
    o.class_if(matches!(c.route, Route::Clear) && (c.w * 3 + c.h * 5 + c.mode as i32) % 6 < 4, "clear-under-a-transform");
    o.class_if(matches!(c.route, Route::Clear) && (c.w * 3 + c.h * 5 + c.mode as i32) % 6 < 4 && c.layer.is_some() && c.layer_clip_popped && matches!(c.clip, ClipSpec::None), "clear-under-a-transform-in-unclipped-layer");
    o.class(match c.clip {
        ClipSpec::None => "clip:none",
        ClipSpec::Rect(..) => "clip:rect",
        ClipSpec::Path(_) => "clip:path",
        ClipSpec::PathRect(..) => "clip:path+rect",
        ClipSpec::PathRectPath(..) => "clip:path+rect+path",
    });
    o.class_if(mode != SRC_OVER, "non-srcover");
    o.class(c.src.kind());
    o.class_if(c.layer.is_some(), "inside-layer");
    o.class_if(c.layer.is_some() && c.layer_clip_popped && matches!(c.route, Route::Rect) && matches!(c.clip, ClipSpec::None), "fast-path-fill_rect-into-narrow-layer");
    o.class_if(c.layer.is_some() && c.layer_nested, "inside-a-layer-nested-in-a-layer");
    o.class_if(c.w > 256 || c.h > 256, "surface-beyond-256");
    o.class_if(matches!(c.layer, Some(r) if r.0 > 0 || r.1 > 0), "inside-layer-with-nonzero-origin");
    Ok(o)
}

pub fn strategy(ctx: &Ctx) -> BoxedStrategy<Case> {
    let ctx = ctx.clone();
    prop_oneof![48 => (1i32..=8, 1i32..=8), 2 => (257i32..=300, 1i32..=2), 2 => (1i32..=2, 257i32..=300), 1 => (prop::sample::select(vec![1024i32, 2047, 2048, 2049, 4096]), 1i32..=1)]
        .prop_flat_map(move |(w, h)| {
            let route = prop_oneof![
                4 => (-3..=w, -3..=h, mask_spec(w + 3, h + 3)).prop_map(|(x, y, mask)| Route::Mask { x, y, mask }),
                5 => (grid_poly(w, h, false), prop::bool::weighted(0.85)).prop_map(|(path, aa)| Route::Fill { path, aa }),
                2 => Just(Route::Rect),
                1 => Just(Route::Clear),
            ];
            let clip = prop_oneof![
                4 => Just(ClipSpec::None),
                2 => int_rect(w, h).prop_map(|(a, b, c, d)| ClipSpec::Rect(a, b, c, d)),
                3 => grid_poly(w, h, false).prop_map(ClipSpec::Path),
                1 => grid_poly(w, h, true).prop_map(ClipSpec::Path),
                1 => (grid_poly(w, h, false), int_rect(w, h)).prop_map(|(p, r)| ClipSpec::PathRect(p, r)),
                1 => (grid_poly(w, h, false), int_rect(w, h), grid_poly(w, h, false)).prop_map(|(p, r, q)| ClipSpec::PathRectPath(p, r, q)),
            ];
            let src = prop_oneof![12 => solid_src(), 4 => image_src(4), 4 => gradient_src(&ctx, w.max(h) as f32), 1 => degenerate_gradient_src(&ctx, w.max(h) as f32)];
            // a layer rectangle with a non-empty part on the surface, origin usually not (0,0)
            let layer = prop::option::weighted(0.3, (0..w, 0..h).prop_flat_map(move |(x, y)| (Just(x), Just(y), x + 1..=w + 1, y + 1..=h + 1)));
            (Just((w, h)), prop::collection::vec(px_premul(), (w * h) as usize), src, alpha_f(), blend_biased(), route, clip, (0i32..=3, 0i32..=3), layer)
        })
        .prop_map(|((w, h), init, src, alpha, mode, route, clip, shift, layer)| {
            // clear() takes a solid colour
            let src = if matches!(route, Route::Clear) && !src.is_solid() { SrcSpec::Solid(0x80402010) } else { src };
            // clear() goes through the clip stack when a layer/clip is present: fine either way
            let layer_clip_popped = layer.is_some() && (alpha.to_bits() >> 5) % 3 == 0;
            let layer_nested = layer.is_some() && (w * 5 + h * 3 + mode as i32) % 3 == 0;
            Case { w, h, init, src, alpha, mode, route, clip, shift, layer, layer_clip_popped, layer_nested }
        })
        .boxed()
}

// ---------------------------------------------------------------------------
// exhaustive sweep: mode x coverage byte x clip class x (s,d) lattice, through mask()/fill under a clip

#[derive(Clone, Debug, Serialize, Deserialize)]
pub struct SweepCase {
    pub mode: u8,
    pub m: u8,
    /// 0 none, 1..=5 clip coverage 0,1,128,254,255 delivered by a clip *path* whose coverage is forced through a mask-like polygon
    pub clip_class: u8,
}

const LATTICE: [u32; 6] = [0, 1, 127, 128, 254, 255];

fn premul_lattice() -> Vec<u32> {
    // premultiplied (a, c) pairs on the boundary lattice, grey and single-channel colours
    let mut v = Vec::new();
    for a in LATTICE {
        for c in LATTICE {
            if c <= a {
                v.push(pack(a, c, c, c));
                v.push(pack(a, c, 0, c.min(a / 2)));
            }
        }
    }
    v.sort();
    v.dedup();
    v
}

/// One sweep case = one (mode, coverage byte m, clip class): a surface holding every (s,d) pair of the
/// premultiplied lattice is drawn once per source colour with a mask of constant byte m.
pub fn check_sweep(c: &SweepCase) -> CheckResult {
    let lat = premul_lattice();
    let n = lat.len() as i32;
    let mut o = Outcome::new();
    o.fp = fp_of(c);
    // clip: rectangle covering the whole surface (exact coverage 255) or nothing
    for (si, s) in lat.iter().enumerate() {
        let init: Vec<u32> = lat.clone();
        let mut dt = DrawTarget::from_vec(n, 1, init.clone());
        let clip_cov: u32 = match c.clip_class {
            0 => 255,
            1 => {
                // surface-covering clip path: exact coverage 255 everywhere
                let mut pb = PathBuilder::new();
                pb.rect(-1.0, -1.0, n as f32 + 2.0, 3.0);
                dt.push_clip(&pb.finish());
                255
            }
            _ => {
                // clip path covering nothing
                let mut pb = PathBuilder::new();
                pb.rect(-5.0, -5.0, 1.0, 1.0);
                dt.push_clip(&pb.finish());
                0
            }
        };
        let src = Source::Solid(solid_of(*s));
        if c.mode == SRC_OVER && si % 2 == 0 {
            let mask = Mask { width: n, height: 1, data: vec![c.m; n as usize] };
            dt.mask(&src, 0, 0, &mask);
        } else {
            // every mode, every coverage byte: a layer holding the colour s everywhere, composited with
            // opacity m/255 (pop_layer delivers the opacity as a constant coverage mask) and blend mode
            dt.push_layer_with_blend(c.m as f32 / 255.0, BLEND_MODES[c.mode as usize]);
            dt.fill_rect(0.0, 0.0, n as f32, 1.0, &src, &DrawOptions { blend_mode: BlendMode::Src, alpha: 1.0, antialias: AntialiasMode::Gray });
            dt.pop_layer();
        }
        let got = dt.get_data();
        for (di, d) in lat.iter().enumerate() {
            match judge_pixel(c.mode, *s, *d, &[c.m as u32], &[clip_cov], got[di], TOL) {
                Ok(_) => o.judged += 1,
                Err(m) => return Err(format!("sweep source #{} dest #{}: {}", si, di, m)),
            }
        }
    }
    o.nontrivial = true;
    o.class_if(c.mode != SRC_OVER, "non-srcover");
    Ok(o)
}

fn sweep_decode(_t: Tier, i: u64) -> SweepCase {
    let clip_class = (i % 3) as u8;
    let m = ((i / 3) % 256) as u8;
    let mode = (i / 3 / 256) as u8;
    SweepCase { mode, m, clip_class }
}

pub fn property(ctx: &Ctx) -> Property {
    let c = ctx.clone();
    Property {
        id: "C03",
        rule: "part px: 1..8 x 1..8 surfaces (one in thirteen 257..300 x 1..2 or 1..2 x 257..300, one in fifty 1024..4096 x 1) where every pixel has its own premultiplied previous value; source solid/image/gradient under global alpha; coverage delivered by mask() bytes (each pixel its own byte), by AA or aliased fills of quarter-grid polygons (exact coverage from the 4x4 model), by fill_rect and clear (for solid sources one fill / fill_rect in four is described in user units 2^7 or 2^14 times smaller under the matching transform, exactly the same device geometry, so that the inverse transform has entries beyond 32768; clear under a translation, scale, quarter turn or singular transform in two thirds of its cases: it is not positioned by the transform); clip none / rect / quarter-grid path / path then rect / path, rect, then a second path (clip coverage = product of the two path coverages, rounded either way); 28 blend modes; in 30% of the cases the whole draw happens inside a layer pushed under an offset clip rectangle (layer origin != (0,0)), a third of those inside a second layer pushed directly inside the first. Oracle per pixel: exactly previous at weight 0, exactly blend(source, previous) at full weight, otherwise within 3/255 of the real-arithmetic coverage-weighted formula; source colour read from a Src render of the same source (solid sources checked against colour x alpha); same inputs translated by whole pixels must give bit-identical pixels. part sweep: exhaustive mode x coverage byte 0..255 x clip {none, full path, empty path} over a premultiplied boundary lattice of (source, previous) pairs. Non-trivial: case with >=1 partially weighted pixel, or a full-weight pixel under a mode other than SrcOver; distinct by hash of (size, source, alpha, mode, route, clip).",
        assumptions: vec![
            "blend(source, previous) is sw_composite::blend::<Mode>::blend, the formula library the property names",
            "between weight 0 and 1 the rounding scheme is not pinned: +-3/255 per channel",
            "AA coverage is known up to C01's 16k / 16k-1 alternatives; a pixel is accepted if any admissible coverage explains it",
        ],
        parts: vec![part("px", 160_000, 3_000_000, move || strategy(&c), check), enum_part("sweep", 28 * 256 * 3, 28 * 256 * 3, sweep_decode, check_sweep)],
        min_class_fraction: vec![("px", "px:partial", 0.3), ("px", "non-srcover", 0.3), ("px", "clip:path", 0.15), ("px", "clip:path+rect+path", 0.03), ("px", "route:mask", 0.15), ("px", "px:w=1", 0.2), ("px", "inside-layer-with-nonzero-origin", 0.1), ("px", "inside-a-layer-nested-in-a-layer", 0.04)],
        panic_is_violation: false,
    }
}
