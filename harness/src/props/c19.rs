//! C19 — pixel word layout, byte views and PNG export agree.

use crate::gen::*;
use crate::runner::*;
use crate::scene::*;
use proptest::prelude::*;
use raqote::*;
use serde::{Deserialize, Serialize};

#[derive(Clone, Debug, Serialize, Deserialize)]
pub struct ViewCase {
    pub w: i32,
    pub h: i32,
    pub words: Vec<u32>,
    /// bytes written through get_data_u8_mut (4*w*h of them)
    pub bytes: Vec<u8>,
    pub argb: [u8; 4],
}

pub fn check_views(c: &ViewCase) -> CheckResult {
    if !cfg!(target_endian = "little") {
        return Err("HARNESS: little-endian target expected".into());
    }
    let mut o = Outcome::new();
    o.fp = fp_of(c);
    let n = (c.w * c.h) as usize;
    // to_u32
    let [a, r, g, b] = c.argb;
    let s = SolidSource { a, r, g, b };
    let want = ((a as u32) << 24) | ((r as u32) << 16) | ((g as u32) << 8) | b as u32;
    if s.to_u32() != want {
        return Err(format!("SolidSource{{a:{},r:{},g:{},b:{}}}.to_u32() = {} expected {}", a, r, g, b, hex(s.to_u32()), hex(want)));
    }
    // from_vec -> get_data / into_vec round trip
    let dt = DrawTarget::from_vec(c.w, c.h, c.words.clone());
    if dt.width() != c.w || dt.height() != c.h {
        return Err("width()/height() do not report the constructed size".into());
    }
    if dt.get_data() != &c.words[..] {
        return Err("from_vec(w,h,v).get_data() != v".into());
    }
    // from_vec with a vector of another length ("extend it to the given size (if needed)"): the pixels that fit
    // are kept, missing ones are zero; with and without spare capacity
    if n > 0 {
        let k = (c.argb[1] as usize) % (n + 1);
        let mut want_px = c.words[..k].to_vec();
        want_px.resize(n, 0);
        let exact: Vec<u32> = c.words[..k].to_vec().into_boxed_slice().into_vec();
        let d1 = DrawTarget::from_vec(c.w, c.h, exact);
        if d1.get_data() != &want_px[..] {
            return Err(format!("from_vec({}, {}, v) with v.len() = {} (no spare capacity): the surface is not v followed by zeros", c.w, c.h, k));
        }
        let mut roomy = Vec::with_capacity(2 * n + 3);
        roomy.extend_from_slice(&c.words[..k]);
        let d2 = DrawTarget::from_vec(c.w, c.h, roomy);
        if d2.into_vec() != want_px {
            return Err(format!("from_vec({}, {}, v) with v.len() = {} (spare capacity): the surface is not v followed by zeros", c.w, c.h, k));
        }
        let mut long = c.words.clone();
        long.extend_from_slice(&c.words[..k]);
        let d3 = DrawTarget::from_vec(c.w, c.h, long);
        if d3.get_data() != &c.words[..] {
            return Err(format!("from_vec({}, {}, v) with v.len() = {} > w*h: the surface is not the first w*h words of v", c.w, c.h, n + k));
        }
        o.class_if(k < n && c.words[..k].iter().any(|p| *p != 0), "from_vec:short-nonzero");
    }
    // byte view of words: B,G,R,A little endian
    let bv = dt.get_data_u8();
    if bv.len() != 4 * n {
        return Err(format!("get_data_u8().len() = {} expected {}", bv.len(), 4 * n));
    }
    for i in 0..n {
        let wv = c.words[i];
        let exp = [wv as u8, (wv >> 8) as u8, (wv >> 16) as u8, (wv >> 24) as u8];
        if bv[4 * i..4 * i + 4] != exp {
            return Err(format!("pixel {} word {} is exposed as bytes {:?}, expected B,G,R,A = {:?}", i, hex(wv), &bv[4 * i..4 * i + 4], exp));
        }
    }
    if dt.into_vec() != c.words {
        return Err("from_vec(w,h,v).into_vec() != v".into());
    }
    // writes through the byte view are visible through every word view
    let mut dt = DrawTarget::from_vec(c.w, c.h, c.words.clone());
    {
        let bm = dt.get_data_u8_mut();
        if bm.len() != 4 * n {
            return Err(format!("get_data_u8_mut().len() = {} expected {}", bm.len(), 4 * n));
        }
        bm.copy_from_slice(&c.bytes);
    }
    let expect: Vec<u32> = (0..n).map(|i| c.bytes[4 * i] as u32 | (c.bytes[4 * i + 1] as u32) << 8 | (c.bytes[4 * i + 2] as u32) << 16 | (c.bytes[4 * i + 3] as u32) << 24).collect();
    if dt.get_data() != &expect[..] {
        return Err("bytes written through get_data_u8_mut are not read back as b0|b1<<8|b2<<16|b3<<24 through get_data".into());
    }
    if dt.get_data_mut() != &expect[..] {
        return Err("get_data_mut disagrees with get_data after byte writes".into());
    }
    // the same while a layer group is open (empty or drawn into, under a narrower clip or not): the views are
    // the surface's own words, not the open layer's
    if n > 0 && c.argb[2] % 2 == 0 {
        let mut d = DrawTarget::from_vec(c.w, c.h, c.words.clone());
        let kind = c.argb[3] % 3;
        if kind == 1 {
            d.push_clip_rect(irect(1, 0, c.w, c.h));
        }
        d.push_layer(if kind == 0 { 1.0 } else { 0.5 });
        if kind == 2 {
            d.fill_rect(0.0, 0.0, c.w as f32, c.h as f32, &Source::Solid(SolidSource { r: 0x40, g: 0x20, b: 0x10, a: 0x80 }), &DrawOptions::new());
        }
        let bv = d.get_data_u8();
        if bv.len() != 4 * n {
            return Err(format!("with a layer open get_data_u8().len() = {} expected {}", bv.len(), 4 * n));
        }
        for i in 0..n {
            let wv = c.words[i];
            if bv[4 * i..4 * i + 4] != [wv as u8, (wv >> 8) as u8, (wv >> 16) as u8, (wv >> 24) as u8] {
                return Err(format!("with a layer open pixel {} word {} is exposed as bytes {:?}", i, hex(wv), &bv[4 * i..4 * i + 4]));
            }
        }
        {
            let bm = d.get_data_u8_mut();
            if bm.len() != 4 * n {
                return Err(format!("with a layer open get_data_u8_mut().len() = {} expected {}", bm.len(), 4 * n));
            }
            bm.copy_from_slice(&c.bytes);
        }
        if d.get_data() != &expect[..] {
            return Err("with a layer open, bytes written through get_data_u8_mut are not read back through get_data".into());
        }
        if d.into_vec() != expect {
            return Err("with a layer open, bytes written through get_data_u8_mut are not read back through into_vec".into());
        }
        o.class("views-taken-while-a-layer-is-open");
    }
    // writes through the word view are visible through the byte view
    if n > 0 {
        let k = (c.argb[0] as usize) % n;
        dt.get_data_mut()[k] = want;
        let bv = dt.get_data_u8();
        if bv[4 * k..4 * k + 4] != [b, g, r, a] {
            return Err(format!("word {} written through get_data_mut reads back as bytes {:?}, expected {:?}", hex(want), &bv[4 * k..4 * k + 4], [b, g, r, a]));
        }
    }
    let mut expect2 = expect.clone();
    if n > 0 {
        expect2[(c.argb[0] as usize) % n] = want;
    }
    if dt.into_inner() != expect2 {
        return Err("into_inner() does not return the buffer as seen through the views".into());
    }
    // from_backing / into_inner, owned and borrowed backings
    let dtb = DrawTarget::from_backing(c.w, c.h, c.words.clone());
    if dtb.get_data() != &c.words[..] {
        return Err("from_backing(..).get_data() != backing".into());
    }
    if dtb.into_inner() != c.words {
        return Err("from_backing(..).into_inner() != backing".into());
    }
    let mut store = c.words.clone();
    {
        let mut dtr = DrawTarget::from_backing(c.w, c.h, &mut store[..]);
        if n > 0 {
            dtr.get_data_u8_mut()[0] = c.bytes[0];
        }
        let back = dtr.into_inner();
        if back.len() != n {
            return Err("into_inner() of a borrowed backing has the wrong length".into());
        }
    }
    if n > 0 && store[0] != (c.words[0] & !0xff) | c.bytes[0] as u32 {
        return Err("write through a borrowed backing's byte view did not reach byte 0 (blue) of pixel 0".into());
    }
    o.judged = 8 * n as u64 + 1;
    let distinct: std::collections::HashSet<u32> = c.words.iter().cloned().collect();
    o.nontrivial = distinct.len() >= 2 && c.w != c.h && a != r && r != g && g != b && a != b;
    o.class_if(n == 0, "zero-sized");
    Ok(o)
}

fn view_strategy() -> BoxedStrategy<ViewCase> {
    prop_oneof![40 => (0i32..=9, 0i32..=9), 1 => (257i32..=300, 1i32..=2), 1 => (1i32..=2, 257i32..=300)]
        .prop_flat_map(|(w, h)| {
            let n = (w * h) as usize;
            (Just(w), Just(h), prop::collection::vec(any::<u32>(), n..=n), prop::collection::vec(any::<u8>(), 4 * n..=4 * n), any::<[u8; 4]>())
        })
        .prop_map(|(w, h, words, bytes, argb)| ViewCase { w, h, words, bytes, argb })
        .boxed()
}

#[derive(Clone, Debug, Serialize, Deserialize)]
pub struct PngCase {
    pub w: i32,
    pub h: i32,
    /// premultiplied words; alpha-0 pixels may carry arbitrary colour bytes
    pub words: Vec<u32>,
}

thread_local! {
    static PNG_PATH: String = {
        let root = std::env::var("VERIF_ROOT").unwrap_or_else(|_| "/verif".to_string());
        let dir = format!("{}/work/png", root);
        let _ = std::fs::create_dir_all(&dir);
        format!("{}/c19-{}-{:?}.png", dir, std::process::id(), std::thread::current().id()).replace("ThreadId(", "t").replace(")", "")
    };
}

pub fn check_png(c: &PngCase) -> CheckResult {
    let mut o = Outcome::new();
    o.fp = fp_of(c);
    let n = (c.w * c.h) as usize;
    let mut dt = DrawTarget::from_vec(c.w, c.h, c.words.clone());
    // the image is the surface's pixel words (what get_data() shows) whatever else the target currently holds:
    // an open layer group (empty or drawn into), a clip, a transform
    let state = if n == 0 { 0 } else { (c.w * 5 + c.h * 3 + (c.words[0] >> 24) as i32) % 6 };
    match state {
        1 => dt.push_layer(0.5),
        2 => {
            dt.push_layer_with_blend(1.0, BlendMode::SrcOver);
            dt.fill_rect(0.0, 0.0, c.w as f32, c.h as f32, &Source::Solid(SolidSource { r: 0x30, g: 0x60, b: 0x90, a: 0xc0 }), &DrawOptions::new());
        }
        3 => {
            dt.push_clip_rect(IntRect::new(IntPoint::new(1, 0), IntPoint::new(c.w, c.h)));
            dt.set_transform(&Transform::scale(2.0, 0.5));
        }
        4 => {
            let mut pb = PathBuilder::new();
            pb.rect(0.5, 0.5, c.w as f32 / 2.0, c.h as f32 / 2.0);
            dt.push_clip(&pb.finish());
            dt.push_layer(1.0);
        }
        _ => {}
    }
    if dt.get_data() != &c.words[..] {
        return Err(format!("opening a layer group / pushing a clip (state {}) changed the pixel words of the surface", state));
    }
    let path = PNG_PATH.with(|p| p.clone());
    let res = dt.write_png(&path);
    if n == 0 {
        // zero-sized surfaces: write_png must return (Ok or Err), not panic
        o.class("zero-sized");
        o.judged = 1;
        return Ok(o);
    }
    if let Err(e) = res {
        return Err(format!("write_png failed on a {}x{} surface: {}", c.w, c.h, e));
    }
    let file = std::fs::File::open(&path).map_err(|e| format!("HARNESS cannot reopen png: {}", e))?;
    let decoder = png::Decoder::new(file);
    let mut reader = decoder.read_info().map_err(|e| format!("written file is not a readable PNG: {}", e))?;
    let mut buf = vec![0; reader.output_buffer_size()];
    let info = reader.next_frame(&mut buf).map_err(|e| format!("PNG frame does not decode: {}", e))?;
    if info.width != c.w as u32 || info.height != c.h as u32 {
        return Err(format!("PNG is {}x{}, surface is {}x{}", info.width, info.height, c.w, c.h));
    }
    if info.color_type != png::ColorType::Rgba || info.bit_depth != png::BitDepth::Eight {
        return Err(format!("PNG is {:?}/{:?}, expected 8-bit RGBA", info.color_type, info.bit_depth));
    }
    let bytes = &buf[..info.buffer_size()];
    if bytes.len() != 4 * n {
        return Err(format!("PNG has {} bytes of pixels, expected {}", bytes.len(), 4 * n));
    }
    for i in 0..n {
        let [a, r, g, b] = ch(c.words[i]);
        let exp = if a > 0 { [(r * 255 / a) as u8, (g * 255 / a) as u8, (b * 255 / a) as u8, a as u8] } else { [r as u8, g as u8, b as u8, 0] };
        if bytes[4 * i..4 * i + 4] != exp {
            return Err(format!("PNG pixel {} (row-major) of word {} is RGBA {:?}, expected {:?}", i, hex(c.words[i]), &bytes[4 * i..4 * i + 4], exp));
        }
    }
    // the same surface held in borrowed storage: a slice that starts at an even and at an odd word of a larger
    // buffer (one of the two is not 8-byte aligned, whatever the allocator does) must give the same file
    if n <= 4096 {
        let first = std::fs::read(&path).map_err(|e| format!("HARNESS cannot reread png: {}", e))?;
        for off in 0..2usize {
            let mut storage = vec![0x5a5a_5a5au32; n + 3];
            storage[off..off + n].copy_from_slice(&c.words);
            let bt = DrawTarget::from_backing(c.w, c.h, &mut storage[off..off + n]);
            if let Err(e) = bt.write_png(&path) {
                return Err(format!("write_png failed on a {}x{} surface in borrowed storage: {}", c.w, c.h, e));
            }
            let again = std::fs::read(&path).map_err(|e| format!("HARNESS cannot reread png: {}", e))?;
            if again != first {
                let file = std::fs::File::open(&path).map_err(|e| format!("HARNESS cannot reopen png: {}", e))?;
                let mut reader = png::Decoder::new(file).read_info().map_err(|e| format!("file written from borrowed storage is not a readable PNG: {}", e))?;
                let mut buf2 = vec![0; reader.output_buffer_size()];
                let info2 = reader.next_frame(&mut buf2).map_err(|e| format!("PNG frame does not decode: {}", e))?;
                let b2 = &buf2[..info2.buffer_size()];
                let i = (0..n.min(b2.len() / 4)).find(|i| b2[4 * i..4 * i + 4] != bytes[4 * i..4 * i + 4]).unwrap_or(0);
                return Err(format!(
                    "the surface held in borrowed storage starting at word {} of a larger buffer gives a different PNG: pixel {} (row-major) is RGBA {:?}, from owned storage {:?}",
                    off,
                    i,
                    &b2[4 * i..(4 * i + 4).min(b2.len())],
                    &bytes[4 * i..4 * i + 4]
                ));
            }
        }
        o.class("also-written-from-borrowed-storage-at-even-and-odd-offsets");
    }
    o.judged = n as u64;
    let mut distinct_swap_visible = 0;
    for p in &c.words {
        let [a, r, g, b] = ch(*p);
        if a > 0 && r != g && g != b && r != b {
            distinct_swap_visible += 1;
        }
    }
    o.nontrivial = distinct_swap_visible >= 2 && c.w != c.h;
    o.class_if(c.words.iter().any(|p| p >> 24 == 0 && p & 0xffffff != 0), "transparent-with-colour");
    o.class_if(n > 65536 && c.words.iter().any(|p| p >> 24 == 0 && p & 0xffffff != 0), "more-than-65536-pixels-with-transparent-colour");
    o.class_if(matches!(state, 1 | 2 | 4), "written-while-a-layer-is-open");
    o.class_if(matches!(state, 3 | 4), "written-under-a-clip");
    o.class_if(c.words.iter().any(|p| (p >> 24) > 0 && (p >> 24) < 255), "translucent");
    Ok(o)
}

fn png_strategy() -> BoxedStrategy<PngCase> {
    prop_oneof![30 => (0i32..=9, 0i32..=9), 1 => (257i32..=300, 1i32..=2), 1 => (1i32..=2, 257i32..=300)]
        .prop_flat_map(|(w, h)| {
            let n = (w * h) as usize;
            let px = prop_oneof![
                6 => px_premul(),
                1 => any::<u32>().prop_map(|v| v & 0x00ff_ffff),
                1 => (1u32..=255, any::<u32>()).prop_map(|(a, v)| { let c = |s: u32| ((v >> s) & 255) % (a + 1); pack(a, c(16), c(8), c(0)) }),
            ];
            (Just(w), Just(h), prop::collection::vec(px, n..=n))
        })
        .prop_map(|(w, h, words)| PngCase { w, h, words })
        .boxed()
}

/// surfaces of more than 16384 pixels that are mostly empty: a few rows of content, the rest exactly zero (what
/// a drawing on a cleared surface looks like; block-wise or cached conversions show their seams here)
fn png_big_strategy() -> BoxedStrategy<PngCase> {
    prop_oneof![2 => (130i32..=190, 130i32..=190), 1 => (257i32..=300, 257i32..=290)]
        .prop_flat_map(|(w, h)| {
            let px = prop_oneof![4 => px_premul(), 1 => Just(0u32), 1 => any::<u32>().prop_map(|v| v & 0x00ff_ffff)];
            (Just(w), Just(h), prop::collection::vec((0..h, prop::collection::vec(px, w as usize..=w as usize)), 1..=6))
        })
        .prop_map(|(w, h, rows)| {
            let mut words = vec![0u32; (w * h) as usize];
            for (y, row) in rows {
                words[(y * w) as usize..((y + 1) * w) as usize].copy_from_slice(&row);
            }
            PngCase { w, h, words }
        })
        .boxed()
}

pub fn property(_ctx: &Ctx) -> Property {
    Property {
        id: "C19",
        rule: "part views: sizes 0..9 x 0..9 (rarely 257..300 long or tall, also for part png) with arbitrary pixel words, arbitrary bytes written through get_data_u8_mut, arbitrary a,r,g,b for to_u32; oracle = word/byte layout model (A<<24|R<<16|G<<8|B; bytes B,G,R,A), cross-view visibility (in half of the cases checked again while a layer group is open, empty, under a narrower clip, or drawn into: the views are the surface's words, not the layer's) and from_vec/from_backing/into_vec/into_inner round trips (owned and borrowed backings; from_vec also with shorter vectors, with and without spare capacity, and longer ones: pixels that fit are kept, missing ones are zero). part png-large: 130..190 px square surfaces (more than 16384 pixels) and 257..300 x 257..290 ones (more than 65536) that are zero except for a few rows (premultiplied words and alpha-0 words with colour bytes), same oracle. part png: premultiplied words (alpha-0 pixels with arbitrary colour bytes) written by write_png (in two thirds of the cases while a layer group is open, empty or drawn into, or a clip and a transform are in force: the image is the surface's pixel words regardless) and decoded with the png crate, then written again from the same words held in a borrowed slice starting at an even and at an odd word of a larger buffer (identical file); oracle = un-premultiply model floor(c*255/a), alpha unchanged, row-major RGBA8. Non-trivial: >=2 distinct pixels, w != h and pairwise different channel bytes (so a channel swap or transposition is visible); distinct by hash of the case.",
        assumptions: vec!["little-endian target", "the png crate's decoder is trusted"],
        parts: vec![part_outside_c07("views", 60_000, 600_000, view_strategy, check_views), part("png", 20_000, 200_000, png_strategy, check_png), part("png-large", 150, 3_000, png_big_strategy, check_png)],
        min_class_fraction: vec![("views", "from_vec:short-nonzero", 0.5), ("views", "views-taken-while-a-layer-is-open", 0.3), ("png", "translucent", 0.5), ("png", "transparent-with-colour", 0.1), ("png-large", "more-than-65536-pixels-with-transparent-colour", 0.2)],
        panic_is_violation: false,
    }
}
