//! C07 — no panic, abort or hang for any in-range input or call sequence.
//!
//! The generator stays inside the statement's domain by construction: device-space geometry
//! (after the transform, grown by the stroke outset) within +-4000 px, gradients >= 1 stop with
//! positive radii, images/masks >= 1x1 with matching data, dash arrays all >= 0 or rejected as a
//! whole (negative / NaN sum), fewer than 10^5 dashes, pops matching pushes.  Inside that domain
//! every boundary value is fair game.

use crate::gen::*;
use crate::runner::*;
use crate::scene::*;
use crate::tree::*;
use proptest::prelude::*;
use raqote::*;
use serde::{Deserialize, Serialize};

#[derive(Clone, Debug, Serialize, Deserialize)]
pub enum Extra {
    ContainsPoint(PathSpec, f32, f32, f32),
    Flatten(PathSpec, f32),
    TransformPath(PathSpec, Xf),
    WritePng,
    ByteViews,
}

#[derive(Clone, Debug, Serialize, Deserialize)]
pub struct Case {
    pub w: i32,
    pub h: i32,
    pub nodes: Vec<Node>,
    pub extras: Vec<Extra>,
}

const LIMIT: f64 = 3900.0;

fn max_abs_xy(p: &PathSpec) -> f64 {
    p.points().iter().fold(0.0f64, |m, q| m.max(q.0.abs() as f64).max(q.1.abs() as f64))
}

fn path_len(p: &PathSpec) -> f64 {
    let pts = p.points();
    pts.windows(2).map(|w| ((w[1].0 - w[0].0) as f64).hypot((w[1].1 - w[0].1) as f64)).sum::<f64>() + 1.0
}

/// scale the linear part of `xf` down until |T p| + outset stays within the working range
fn fit_xf(xf: &Xf, extent: f64, outset: f64) -> Xf {
    let mut x = *xf;
    let tr = (x[4].abs().max(x[5].abs())) as f64;
    if tr > 1000.0 {
        x[4] = x[4].clamp(-1000.0, 1000.0);
        x[5] = x[5].clamp(-1000.0, 1000.0);
    }
    let norm = ((x[0].abs() + x[2].abs()).max(x[1].abs() + x[3].abs())) as f64;
    let reach = (extent + outset) * norm + 1000.0;
    if reach > LIMIT {
        let s = ((LIMIT - 1000.0) / ((extent + outset) * norm)) as f32;
        for v in x.iter_mut().take(4) {
            *v *= s;
        }
    }
    x
}

fn outset_of(st: &StyleSpec) -> f64 {
    let w = st.width.0 as f64;
    if !(w > 0.0) {
        return 0.0;
    }
    0.5 * w * (st.miter.0 as f64).max(1.4143)
}

/// Bring a tree into C07's domain given the transform in force: rescales transforms (never the
/// geometry) so that every drawing call keeps its device-space geometry within +-3900 px.
fn fit_nodes(nodes: &mut Vec<Node>, xf: &mut Xf) {
    // the largest geometric extent (incl. stroke outset) any later op of this level needs
    fn need(nodes: &[Node]) -> f64 {
        let mut m = 1.0f64;
        for n in nodes {
            match n {
                Node::Op(op) => {
                    m = m.max(match op {
                        Op::Fill(p, ..) | Op::PushClipPath(p) => max_abs_xy(p),
                        Op::Stroke(p, _, st, _) => max_abs_xy(p) + outset_of(st),
                        Op::FillRect(x, y, w, h, ..) => (x.abs() + w.abs()).max(y.abs() + h.abs()) as f64,
                        Op::DrawImageAt(x, y, img, _) => (x.abs() + img.w as f32).max(y.abs() + img.h as f32) as f64,
                        Op::DrawImageSized(w, h, x, y, ..) => (x.abs() + w.abs()).max(y.abs() + h.abs()) as f64,
                        _ => 1.0,
                    })
                }
                Node::Clip(push, inner) => {
                    if let Op::PushClipPath(p) = push {
                        m = m.max(max_abs_xy(p));
                    }
                    m = m.max(need(inner));
                }
                Node::Layer(_, _, inner) => m = m.max(need(inner)),
            }
        }
        m
    }
    let extent = need(nodes);
    fn go(nodes: &mut Vec<Node>, xf: &mut Xf, extent: f64) {
        for n in nodes.iter_mut() {
            match n {
                Node::Op(Op::SetXf(x)) => {
                    *x = fit_xf(x, extent, 0.0);
                    *xf = *x;
                }
                Node::Op(_) => {}
                Node::Clip(_, inner) | Node::Layer(_, _, inner) => go(inner, xf, extent),
            }
        }
    }
    go(nodes, xf, extent);
}

/// While the finding C07-nearest-fetch-fixed-overflow is open: Nearest-filtered image sources whose
/// image-space coordinates could leave the 16.16 range are switched to Bilinear (exclusion by construction).
fn tame_nearest(nodes: &mut Vec<Node>, xf: &mut Xf, w: i32, h: i32) {
    fn bound(xf: &Xf, sxf: &Xf, w: i32, h: i32) -> f64 {
        let Some(inv) = xf_inverse64(xf) else { return 0.0 };
        let mut m = 0.0f64;
        for c in [(0.0, 0.0), (w as f64, 0.0), (0.0, h as f64), (w as f64, h as f64)] {
            let u = xf_apply64(&inv, c);
            let v = xf_apply(sxf, u);
            m = m.max(v.0.abs()).max(v.1.abs());
        }
        if m.is_finite() { m } else { f64::INFINITY }
    }
    for n in nodes.iter_mut() {
        match n {
            Node::Op(Op::SetXf(x)) => *xf = *x,
            Node::Op(Op::Fill(_, s, _)) | Node::Op(Op::FillRect(_, _, _, _, s, _)) | Node::Op(Op::Stroke(_, s, _, _)) | Node::Op(Op::Mask(s, ..)) => {
                if let SrcSpec::Image { nearest, xf: sxf, .. } = s {
                    if *nearest && bound(xf, sxf, w.max(1) + 8, h.max(1) + 8) > 30000.0 {
                        *nearest = false;
                    }
                }
            }
            Node::Op(_) => {}
            Node::Clip(_, inner) | Node::Layer(_, _, inner) => tame_nearest(inner, xf, w, h),
        }
    }
}

// ---------------------------------------------------------------------------
// wild generators

fn wild_f32() -> BoxedStrategy<f32> {
    prop_oneof![
        4 => prop::sample::select(vec![0.0f32, -0.0, 1.0, -1.0, 0.5, f32::NAN, f32::INFINITY, f32::NEG_INFINITY, 1e30, -1e30, 1e-30, -1e-30, f32::MAX, f32::MIN_POSITIVE, 2.0, 255.0, 1e-7]),
        3 => -10.0f32..10.0,
        1 => -1e6f32..1e6,
    ]
    .boxed()
}

fn geo(ext: f32) -> BoxedStrategy<f32> {
    prop_oneof![
        6 => coord(ext),
        2 => -300.0f32..300.0,
        1 => prop::sample::select(vec![3000.0f32, -3000.0, 1e-30, -1e-30, 1e-6, 0.25, 1024.0]),
    ]
    .boxed()
}

fn wild_path(ext: f32) -> BoxedStrategy<PathSpec> {
    let c = move || geo(ext);
    let op = prop_oneof![
        2 => (c(), c()).prop_map(|(x, y)| POp::M(x, y)),
        4 => (c(), c()).prop_map(|(x, y)| POp::L(x, y)),
        2 => (c(), c(), c(), c()).prop_map(|(a, b, x, y)| POp::Q(a, b, x, y)),
        2 => (c(), c(), c(), c(), c(), c()).prop_map(|(a, b, cc, d, x, y)| POp::C(a, b, cc, d, x, y)),
        2 => Just(POp::Z),
    ];
    (prop::collection::vec(op, 0..=8), prop::collection::vec(0u8..6, 8), any::<bool>())
        .prop_map(|(mut ops, degs, evenodd)| {
            // degenerate variants: zero-length segments, coincident control points
            let mut last: Option<(f32, f32)> = None;
            for (op, d) in ops.iter_mut().zip(degs) {
                match op {
                    POp::L(x, y) => {
                        if d == 0 {
                            if let Some(l) = last {
                                *x = l.0;
                                *y = l.1;
                            }
                        }
                        last = Some((*x, *y));
                    }
                    POp::Q(a, b, x, y) => {
                        if d == 0 {
                            *a = *x;
                            *b = *y;
                        } else if d == 1 {
                            if let Some(l) = last {
                                *a = l.0;
                                *b = l.1;
                                *x = l.0;
                                *y = l.1;
                            }
                        }
                        last = Some((*x, *y));
                    }
                    POp::C(a, b, cc, dd, x, y) => {
                        if d == 0 {
                            *a = *x;
                            *b = *y;
                            *cc = *x;
                            *dd = *y;
                        } else if d == 1 {
                            if let Some(l) = last {
                                *a = l.0;
                                *b = l.1;
                                *cc = l.0;
                                *dd = l.1;
                            }
                        }
                        last = Some((*x, *y));
                    }
                    POp::M(x, y) => last = Some((*x, *y)),
                    POp::Z => {}
                }
            }
            PathSpec { ops, evenodd }
        })
        .boxed()
}

fn wild_style(pathlen_hint: f32) -> BoxedStrategy<StyleSpec> {
    let width = prop_oneof![4 => 0.1f32..12.0, 1 => Just(0.0f32), 1 => Just(-1.0f32), 1 => Just(f32::NAN), 1 => Just(1e-6f32), 1 => Just(-1e-30f32), 1 => 12.0f32..60.0];
    let miter = prop_oneof![3 => Just(10.0f32), 1 => Just(0.0f32), 1 => Just(1.0f32), 2 => 0.0f32..20.0];
    let dash_ok = prop::collection::vec(prop_oneof![4 => 0.5f32..30.0, 1 => Just(0.0f32), 1 => Just(1e-3f32), 1 => Just(3e38f32), 1 => Just(1e30f32)], 0..=6);
    let dash_rejected = prop_oneof![
        Just(vec![-1.0f32, -2.0]),
        Just(vec![5.0f32, -10.0]),
        Just(vec![f32::NAN]),
        Just(vec![1.0f32, f32::NAN, 2.0]),
        Just(vec![0.0f32, 0.0]),
        Just(vec![0.0f32]),
        Just(vec![f32::NEG_INFINITY, 1.0]),
        Just(vec![f32::INFINITY, f32::NEG_INFINITY]),
    ];
    let dash = prop_oneof![5 => dash_ok, 2 => dash_rejected, 3 => Just(vec![])];
    let offset = prop_oneof![3 => Just(0.0f32), 3 => -50.0f32..50.0, 3 => wild_f32(), 1 => Just(1e4f32)];
    (width, 0u8..3, 0u8..3, miter, dash, offset)
        .prop_map(move |(width, cap, join, miter, mut dash, offset)| {
            // fewer than 10^5 dashes: when the array is accepted (all >= 0, positive finite sum), its
            // period must not be tiny relative to the path
            let sum: f32 = dash.iter().sum();
            let all_nonneg = dash.iter().all(|d| *d >= 0.0);
            if all_nonneg && sum > 0.0 && sum.is_finite() {
                let per_dash = sum / dash.len() as f32;
                // the statement allows up to 10^5 dashes; the generator stays below ~2000 per stroke because
                // the cost of a dashed outline grows faster than linearly with the dash count (a 40 000-dash
                // stroke takes about a minute and would be mistaken for a hang by the watchdog)
                // (the hint ignores closing segments, hence the factor 2; wide strokes make every dash overlap
                // hundreds of others on each scanline, so they get fewer dashes still)
                let budget = if width > 8.0 { 300.0 } else { 1500.0 };
                let min_ok = 2.0 * pathlen_hint / budget;
                if per_dash < min_ok {
                    let k = min_ok / per_dash;
                    for d in dash.iter_mut() {
                        *d *= k;
                    }
                }
            }
            // keep the outset bounded so that the geometry bound can be met by scaling the transform
            let width = if width > 0.0 && width * miter.max(1.4143) > 400.0 { 400.0 / miter.max(1.4143) } else { width };
            StyleSpec { width: Fl(width), cap, join, miter: Fl(miter), dash: dash.into_iter().map(Fl).collect(), offset: Fl(offset) }
        })
        .boxed()
}

fn wild_stops() -> BoxedStrategy<Vec<Stop>> {
    // >= 1 stop, non-decreasing positions (equal positions allowed), positions mostly in [0,1]
    (prop::collection::vec((prop_oneof![4 => 0.0f32..=1.0, 1 => Just(0.0f32), 1 => Just(1.0f32), 1 => Just(0.5f32)], color_unpremul()), 1..=5))
        .prop_map(|mut v| {
            v.sort_by(|a, b| a.0.partial_cmp(&b.0).unwrap());
            v.into_iter().map(|(pos, color)| Stop { pos, color }).collect()
        })
        .boxed()
}

fn wild_src(ext: f32) -> BoxedStrategy<SrcSpec> {
    let c = move || geo(ext);
    let radius = || prop_oneof![4 => 0.5f32..60.0, 1 => Just(1e-3f32), 1 => Just(1e-30f32), 1 => Just(1e30f32), 1 => Just(f32::MIN_POSITIVE), 1 => Just(3000.0f32)];
    prop_oneof![
        // colours are premultiplied by type contract (SolidSource: "r,g,b <= a"); texels and surfaces likewise
        5 => px_premul().prop_map(SrcSpec::Solid),
        3 => (image_spec(6, 6), any::<bool>(), any::<bool>(), prop_oneof![3 => xf_invertible(6.0), 1 => xf_singular(), 1 => Just(IDENT), 1 => Just([1e-6f32, 0., 0., 1e-6, 0., 0.]), 1 => Just([200.0f32, 0., 0., 200.0, 7.0, -3.0])]).prop_map(|(img, repeat, nearest, xf)| SrcSpec::Image { img, repeat, nearest, xf }),
        2 => (wild_stops(), 0u8..3, c(), c(), c(), c(), any::<bool>()).prop_map(|(stops, spread, x0, y0, x1, y1, same)| if same { SrcSpec::Linear { stops, spread, x0, y0, x1: x0, y1: y0 } } else { SrcSpec::Linear { stops, spread, x0, y0, x1, y1 } }),
        2 => (wild_stops(), 0u8..3, c(), c(), radius()).prop_map(|(stops, spread, cx, cy, r)| SrcSpec::Radial { stops, spread, cx, cy, r }),
        2 => (wild_stops(), 0u8..3, c(), c(), radius(), c(), c(), radius()).prop_map(|(stops, spread, x1, y1, r1, x2, y2, r2)| SrcSpec::TwoCircle { stops, spread, x1, y1, r1, x2, y2, r2 }),
        2 => (wild_stops(), 0u8..3, c(), c(), prop_oneof![-720.0f32..720.0, Just(0.0f32)], prop_oneof![-720.0f32..720.0, Just(0.0f32), Just(360.0f32)]).prop_map(|(stops, spread, cx, cy, a0, a1)| SrcSpec::Sweep { stops, spread, cx, cy, a0, a1 }),
    ]
    .boxed()
}

fn wild_opts() -> BoxedStrategy<Opts> {
    let alpha = prop_oneof![3 => Just(1.0f32), 3 => 0.0f32..=1.0, 3 => wild_f32(), 1 => Just(1.5f32), 1 => Just(-0.5f32)];
    (blend_any(), alpha, any::<bool>()).prop_map(|(blend, alpha, aa)| Opts { blend, alpha: Fl(alpha), aa }).boxed()
}

fn wild_xf() -> BoxedStrategy<Xf> {
    prop_oneof![
        4 => Just(IDENT),
        5 => xf_invertible(20.0),
        2 => xf_singular(),
        1 => (1e-6f32..1e-3).prop_map(|s| [s, 0., 0., s, 0., 0.]),
        1 => (20.0f32..400.0, -500.0f32..500.0).prop_map(|(s, t)| [s, 0., 0., s, t, t]),
        1 => (-1.0f32..1.0, -1.0f32..1.0, -1.0f32..1.0, -1.0f32..1.0, -900.0f32..900.0, -900.0f32..900.0).prop_map(|(a, b, c, d, e, f)| [a, b, c, d, e, f]),
    ]
    .boxed()
}

fn wild_i32() -> BoxedStrategy<i32> {
    prop_oneof![5 => -10i32..=60, 2 => -5000i32..=5000, 1 => prop::sample::select(vec![-1_000_000i32, 1_000_000, 0, -1, 100_000])].boxed()
}

fn wild_draw(w: i32, h: i32) -> BoxedStrategy<Op> {
    let ext = w.max(h).max(1) as f32;
    let surf = (1i32..=6, 1i32..=6).prop_flat_map(|(sw, sh)| pixels((sw * sh) as usize, 0).prop_map(move |data| SurfSpec { w: sw, h: sh, data }));
    let surf0 = prop_oneof![8 => surf.boxed(), 1 => Just(SurfSpec { w: 0, h: 0, data: vec![] }).boxed(), 1 => Just(SurfSpec { w: 3, h: 0, data: vec![] }).boxed()];
    let r4 = (wild_i32(), wild_i32(), wild_i32(), wild_i32()).prop_map(|(a, b, c, d)| [a, b, c, d]);
    let p2 = (wild_i32(), wild_i32()).prop_map(|(a, b)| [a, b]);
    let g = move || geo(ext);
    prop_oneof![
        6 => (wild_path(ext), wild_src(ext), wild_opts()).prop_map(|(p, s, o)| Op::Fill(p, s, o)),
        4 => (wild_path(ext), wild_src(ext), wild_opts()).prop_flat_map(|(p, s, o)| { let l = path_len(&p) as f32; (Just(p), Just(s), wild_style(l), Just(o)) }).prop_map(|(p, s, st, o)| Op::Stroke(p, s, st, o)),
        // dashes far smaller than the spacing of f32 values at the path's coordinates (a short piece of a drawing
        // thousands of units from the origin, dashed finely): a step of one dash does not move the point at all
        1 => (prop_oneof![1024.0f32..3900.0, -3900.0f32..-1024.0], prop_oneof![1024.0f32..3900.0, -3900.0f32..-1024.0], 0.0f32..360.0, 0.02f32..0.5, 1000.0f32..20000.0, any::<bool>(), wild_src(ext), wild_opts()).prop_map(|(ax, ay, dir, len, ndash, closed, s, o)| {
            let r = (dir as f64).to_radians();
            let (bx, by) = (ax as f64 + len as f64 * r.cos(), ay as f64 + len as f64 * r.sin());
            let mut ops = vec![POp::M(ax, ay), POp::L(bx as f32, by as f32)];
            if closed {
                ops.push(POp::Z);
            }
            let e = len / ndash;
            Op::Stroke(PathSpec { ops, evenodd: false }, s, StyleSpec { width: Fl(1.0), cap: 0, join: 0, miter: Fl(10.0), dash: vec![Fl(e), Fl(e * 0.7)], offset: Fl(0.0) }, o)
        }),
        // hairpins: two segments that reverse direction to within 1e-5..1e-3 rad of 180 degrees (not exactly), stroked
        // wide with a miter join: the dot product of the two unit normals rounds to either side of -1 / +1, the
        // miter-or-bevel decision divides by what is left
        2 => (0.0f32..200.0, 0.0f32..200.0, 0.0f32..360.0, 40.0f32..160.0, prop_oneof![1.0e-5f32..1.0e-3, -1.0e-3f32..-1.0e-5], 0.3f32..1.0, 20.0f32..60.0, prop_oneof![3 => Just(10.0f32), 1 => Just(4.0f32), 1 => Just(100.0f32)], wild_src(ext), wild_opts()).prop_map(|(ax, ay, dir, len, ang, back, width, miter, s, o)| {
            let r = (dir as f64).to_radians();
            let (bx, by) = (ax as f64 + len as f64 * r.cos(), ay as f64 + len as f64 * r.sin());
            let r2 = r + std::f64::consts::PI + ang as f64;
            let l2 = (len * back) as f64;
            let (cx, cy) = (bx + l2 * r2.cos(), by + l2 * r2.sin());
            let path = PathSpec { ops: vec![POp::M(ax, ay), POp::L(bx as f32, by as f32), POp::L(cx as f32, cy as f32)], evenodd: false };
            Op::Stroke(path, s, StyleSpec { width: Fl(width), cap: 0, join: 0, miter: Fl(miter), dash: vec![], offset: Fl(0.0) }, o)
        }),
        3 => (g(), g(), prop_oneof![g(), Just(0.0f32), (-20i32..60).prop_map(|v| v as f32)], prop_oneof![g(), Just(0.0f32), (-20i32..60).prop_map(|v| v as f32)], wild_src(ext), wild_opts()).prop_map(|(x, y, rw, rh, s, o)| Op::FillRect(x, y, rw.clamp(-600.0, 600.0), rh.clamp(-600.0, 600.0), s, o)),
        1 => px_premul().prop_map(Op::Clear),
        3 => (wild_src(ext), wild_i32(), wild_i32(), mask_spec(8, 8)).prop_map(|(s, x, y, m)| Op::Mask(s, x.clamp(-5000, 5000), y.clamp(-5000, 5000), m)),
        2 => (g(), g(), image_spec(6, 6), wild_opts()).prop_map(|(x, y, img, o)| Op::DrawImageAt(x, y, img, o)),
        2 => (prop_oneof![0.01f32..50.0, Just(1e-3f32), Just(600.0f32)], prop_oneof![0.01f32..50.0, Just(1e-3f32), Just(600.0f32)], g(), g(), image_spec(6, 6), wild_opts()).prop_map(|(iw, ih, x, y, img, o)| Op::DrawImageSized(iw, ih, x, y, img, o)),
        1 => (surf0.clone(), r4.clone(), p2.clone()).prop_map(|(s, r, p)| Op::CopySurface(s, r, p)),
        1 => (surf0.clone(), r4.clone(), p2.clone(), blend_any()).prop_map(|(s, r, p, b)| Op::BlendSurface(s, r, p, b)),
        1 => (surf0, r4, p2, wild_f32()).prop_map(|(s, r, p, a)| Op::BlendSurfaceAlpha(s, r, p, Fl(a))),
    ]
    .boxed()
}

fn wild_tree(w: i32, h: i32, maxlen: usize) -> BoxedStrategy<Vec<Node>> {
    let ext = w.max(h).max(1) as f32;
    let leaf = prop_oneof![8 => wild_draw(w, h).prop_map(Node::Op), 2 => wild_xf().prop_map(|x| Node::Op(Op::SetXf(x)))];
    let clip = move || {
        prop_oneof![
            2 => (wild_i32(), wild_i32(), wild_i32(), wild_i32()).prop_map(|(a, b, c, d)| Op::PushClipRect(a, b, c, d)),
            1 => int_rect(w, h).prop_map(|(a, b, c, d)| Op::PushClipRect(a, b, c, d)),
            2 => wild_path(ext).prop_map(Op::PushClipPath),
        ]
    };
    let node = leaf.prop_recursive(3, 24, 4, move |inner| {
        let kids = prop::collection::vec(inner, 0..=3);
        prop_oneof![
            2 => (clip(), kids.clone()).prop_map(|(c, k)| Node::Clip(c, k)),
            2 => (prop_oneof![3 => 0.0f32..=1.0, 1 => Just(1.0f32), 2 => wild_f32()], blend_any(), kids).prop_map(|(o, b, k)| Node::Layer(Fl(o), b, k)),
        ]
    });
    prop::collection::vec(node, 1..=maxlen).boxed()
}

thread_local! {
    static PNG_PATH: String = {
        let root = std::env::var("VERIF_ROOT").unwrap_or_else(|_| "/verif".to_string());
        let dir = format!("{}/work/png", root);
        let _ = std::fs::create_dir_all(&dir);
        format!("{}/c07-{}-{:?}.png", dir, std::process::id(), std::thread::current().id()).replace("ThreadId(", "t").replace(")", "")
    };
}

pub fn check(c: &Case) -> CheckResult {
    let mut o = Outcome::new();
    o.fp = fp_of(c);
    let mut dt = DrawTarget::new(c.w, c.h);
    let ops = flat(&c.nodes);
    for op in &ops {
        apply(&mut dt, op);
        o.class(op.kind());
    }
    for e in &c.extras {
        match e {
            Extra::ContainsPoint(p, tol, x, y) => {
                let _ = p.build().contains_point(*tol, *x, *y);
                o.class("extra:contains_point");
            }
            Extra::Flatten(p, tol) => {
                let _ = p.build().flatten(*tol);
                o.class("extra:flatten");
            }
            Extra::TransformPath(p, x) => {
                let _ = p.build().transform(&to_transform(x));
                o.class("extra:transform");
            }
            Extra::WritePng => {
                let path = PNG_PATH.with(|p| p.clone());
                let _ = dt.write_png(&path);
                o.class("extra:write_png");
            }
            Extra::ByteViews => {
                let n = dt.get_data().len();
                if dt.get_data_u8().len() != 4 * n || dt.get_data_u8_mut().len() != 4 * n || dt.get_data_mut().len() != n {
                    return Err("byte/word views disagree on the buffer length".into());
                }
                o.class("extra:views");
            }
        }
    }
    o.judged = ops.len() as u64 + c.extras.len() as u64;
    // degenerate / boundary classes actually present
    let mut degenerate = false;
    o.class_if(c.w == 0 || c.h == 0, "zero-sized-surface");
    degenerate |= c.w == 0 || c.h == 0;
    for op in &ops {
        match op {
            Op::Stroke(p, _, st, o2) => {
                let wd = st.width.0;
                if !(wd > 0.0) {
                    o.class("width<=0-or-nan");
                    degenerate = true;
                }
                let sum: f32 = st.dash.iter().map(|d| d.0).sum();
                if !st.dash.is_empty() && !(sum > 0.0) {
                    o.class("dash-rejected-as-a-whole");
                    degenerate = true;
                }
                if st.dash.iter().any(|d| d.0 == 0.0) {
                    o.class("dash-with-zero-entry");
                    degenerate = true;
                }
                if sum.is_infinite() {
                    o.class("dash-sum-infinite");
                    degenerate = true;
                }
                if !st.offset.0.is_finite() || st.offset.0.abs() > 1e6 {
                    o.class("dash-offset-extreme");
                    degenerate = true;
                }
                if p.ops.is_empty() {
                    o.class("empty-path");
                    degenerate = true;
                }
                if !(o2.alpha.0 >= 0.0 && o2.alpha.0 <= 1.0) {
                    o.class("alpha-outside-[0,1]");
                    degenerate = true;
                }
            }
            Op::Fill(p, _, o2) => {
                if p.ops.is_empty() {
                    o.class("empty-path");
                    degenerate = true;
                }
                if !(o2.alpha.0 >= 0.0 && o2.alpha.0 <= 1.0) {
                    o.class("alpha-outside-[0,1]");
                    degenerate = true;
                }
            }
            Op::SetXf(x) => {
                if xf_det(x) == 0.0 {
                    o.class("singular-transform");
                    degenerate = true;
                }
            }
            Op::PushClipRect(a, b, cc, d) => {
                if cc <= a || d <= b {
                    o.class("empty-or-inverted-clip-rect");
                    degenerate = true;
                }
                if a.abs() > 4000 || cc.abs() > 4000 {
                    o.class("far-clip-rect");
                    degenerate = true;
                }
            }
            Op::PushLayer(op, _) => {
                if !(op.0 >= 0.0 && op.0 <= 1.0) {
                    o.class("opacity-outside-[0,1]");
                    degenerate = true;
                }
            }
            Op::CopySurface(_, r, p) | Op::BlendSurface(_, r, p, _) | Op::BlendSurfaceAlpha(_, r, p, _) => {
                if r.iter().chain(p.iter()).any(|v| v.abs() > 4000) {
                    o.class("far-src-rect-or-dst");
                    degenerate = true;
                }
            }
            _ => {}
        }
    }
    o.nontrivial = degenerate && ops.len() >= 2;
    Ok(o)
}

pub fn strategy(ctx: &Ctx, maxlen: usize) -> BoxedStrategy<Case> {
    let tame = ctx.excluded("C07-nearest-fetch-fixed-overflow");
    let size = prop_oneof![8 => (0i32..=40, 0i32..=40), 1 => (0i32..=2, 0i32..=300), 1 => (0i32..=300, 0i32..=2), 1 => Just((0, 0))];
    size.prop_flat_map(move |(w, h)| {
        let ext = w.max(h).max(1) as f32;
        let extra = prop_oneof![
            (wild_path(ext), prop_oneof![Just(0.1f32), 0.01f32..2.0], geo(ext), geo(ext)).prop_map(|(p, t, x, y)| Extra::ContainsPoint(p, t, x, y)),
            (wild_path(ext), prop_oneof![Just(0.1f32), 0.01f32..2.0, Just(100.0f32)]).prop_map(|(p, t)| Extra::Flatten(p, t)),
            (wild_path(ext), wild_xf()).prop_map(|(p, x)| Extra::TransformPath(p, x)),
            Just(Extra::WritePng),
            Just(Extra::ByteViews),
        ];
        // huge user units: numbers of 1e8..4e9 under a transform of scale 1e-7..1e-6 that brings them back onto
        // the surface (the stated bound is on device-space geometry): integer conversions of user-space arguments
        // overflow there
        let huge = (prop::sample::select(vec![1.0e-7f32, 2.5e-7, 9.536743e-7, 1.0e-6]), prop::collection::vec((0u8..5, -300.0f32..300.0, -300.0f32..300.0, -300.0f32..300.0, -300.0f32..300.0, wild_src(ext), wild_opts(), image_spec(4, 4)), 1..=3)).prop_map(|(sc, items)| {
            let mut nodes = vec![Node::Op(Op::SetXf([sc, 0.0, 0.0, sc, 0.0, 0.0]))];
            for (kind, x, y, a, b, s, o, img) in items {
                let u = |v: f32| v / sc;
                nodes.push(Node::Op(match kind {
                    0 => Op::FillRect(u(x), u(y), u(a), u(b), s, o),
                    1 => Op::Fill(PathSpec { ops: vec![POp::M(u(x), u(y)), POp::L(u(x + a), u(y)), POp::L(u(x), u(y + b)), POp::Z], evenodd: false }, s, o),
                    2 => Op::Stroke(PathSpec { ops: vec![POp::M(u(x), u(y)), POp::L(u(x + a), u(y + b))], evenodd: false }, s, StyleSpec { width: Fl(u(3.0)), cap: 1, join: 1, miter: Fl(4.0), dash: vec![], offset: Fl(0.0) }, o),
                    3 => Op::DrawImageAt(u(x), u(y), img, o),
                    _ => Op::DrawImageSized(u(a.abs() + 1.0), u(b.abs() + 1.0), u(x), u(y), img, o),
                }));
            }
            nodes
        });
        let nodes = prop_oneof![14 => wild_tree(w, h, maxlen), 1 => huge.boxed()];
        (Just((w, h)), nodes, prop::collection::vec(extra, 0..=2))
    })
    .prop_map(move |((w, h), mut nodes, extras)| {
        let mut xf = IDENT;
        fit_nodes(&mut nodes, &mut xf);
        if tame {
            let mut xf = IDENT;
            tame_nearest(&mut nodes, &mut xf, w, h);
        }
        Case { w, h, nodes, extras }
    })
    .boxed()
}

pub fn property(ctx: &Ctx) -> Property {
    let (c1, c2) = (ctx.clone(), ctx.clone());
    Property {
        id: "C07",
        rule: "part calls: histories of 1-16 (thorough: also up to 64) public calls with matching pushes/pops on surfaces 0..40 (a few to 300): fill, stroke, fill_rect, clear, mask, draw_image_*, copy/blend_surface*, push_clip_rect (any i32 rect incl. inverted and +-10^6), push_clip, layers (any opacity incl. NaN/inf/out of range), set_transform (all invertible classes, singular, tiny and huge scales), then contains_point / flatten / Path::transform / write_png / byte views; every numeric parameter takes its boundary values (0, -0, +-1e-30, NaN, +-inf, +-1e30, f32::MAX where the domain allows): widths 0/negative/NaN, dash arrays empty / zeros / 3e38 entries / rejected as a whole (negative or NaN sum), dash offsets of any value, alpha outside [0,1], zero-length segments, coincident control points, empty paths, linear gradients with start = end, radii from f32::MIN_POSITIVE to 1e30, sweep angles equal, zero-sized and 0-height source surfaces. Transforms are scaled down by construction so that device geometry grown by the stroke outset stays within +-3900 px; dash counts stay below about 2000 per stroke (the statement allows 10^5, but cost grows superlinearly and would trip the watchdog). Oracle: every call returns without unwinding (catch_unwind + panic hook recording the site) under overflow checks and debug assertions; a per-case watchdog reports hangs as inconclusive. C07 additionally sweeps the generators of every other property with the same oracle. Non-trivial: history of >= 2 calls containing >= 1 degenerate/boundary value class; distinct by hash of the case.",
        assumptions: vec![
            "hangs are reported by the watchdog as inconclusive (exit 2), never as a violation",
            "listed panics of the locked dependency sw-composite (non-separable blend modes) are tolerated by exact signature (site + message + blend function in the backtrace) and counted in excluded_known",
            "NaN/infinite *geometry* is outside the statement's domain (geometry must stay within +-4000 px) and is not generated",
        ],
        parts: vec![part("calls", 60_000, 2_000_000, move || strategy(&c1, 16), check), part("long", 2_000, 100_000, move || strategy(&c2, 64), check)],
        min_class_fraction: vec![
            ("calls", "op:stroke", 0.2),
            ("calls", "width<=0-or-nan", 0.05),
            ("calls", "dash-rejected-as-a-whole", 0.02),
            ("calls", "singular-transform", 0.05),
            ("calls", "empty-or-inverted-clip-rect", 0.05),
            ("calls", "zero-sized-surface", 0.03),
            ("calls", "alpha-outside-[0,1]", 0.05),
            ("calls", "opacity-outside-[0,1]", 0.03),
            ("calls", "far-src-rect-or-dst", 0.03),
            ("calls", "extra:write_png", 0.05),
        ],
        panic_is_violation: true,
    }
}
