//! C05 — the effective clip is the intersection of every clip pushed and not yet popped.

use crate::compose::*;
use crate::gen::*;
use crate::runner::*;
use crate::scene::*;
use crate::tree::*;
use proptest::prelude::*;
use raqote::*;
use serde::{Deserialize, Serialize};

#[derive(Clone, Debug, Serialize, Deserialize)]
pub struct Case {
    pub w: i32,
    pub h: i32,
    pub init: Vec<u32>,
    pub nodes: Vec<Node>,
}

struct Walk<'a> {
    w: i32,
    h: i32,
    o: &'a mut Outcome,
    /// kinds of the live clips, in push order ('r' / 'p')
    kinds: Vec<char>,
    popped_before_draw: bool,
    exact_ok: Vec<bool>,
}

fn walk(nodes: &[Node], dt: &mut DrawTarget, ctx: &mut ClipCtx, xf: &mut Xf, wk: &mut Walk) -> Result<(), String> {
    let (w, h) = (wk.w, wk.h);
    for node in nodes {
        match node {
            Node::Op(Op::SetXf(x)) => {
                dt.set_transform(&to_transform(x));
                *xf = *x;
            }
            Node::Op(op) => {
                let before = dt.get_data().to_vec();
                apply(dt, op);
                let after = dt.get_data().to_vec();
                let exact = wk.exact_ok.iter().all(|b| *b);
                // (i) outside any pushed rectangle nothing may change, whatever the op
                for i in 0..before.len() {
                    let (x, y) = (i as i32 % w, i as i32 / w);
                    if !ctx.in_rects(x, y) && after[i] != before[i] {
                        return Err(format!("{} changed pixel ({},{}) from {} to {} although it lies outside a pushed clip rectangle (stack {:?})", op.kind(), x, y, hex(before[i]), hex(after[i]), wk.kinds));
                    }
                }
                // (ii) rect-only stacks: inside the intersection the result equals the unclipped drawing exactly
                if ctx.n_paths() == 0 {
                    let mut fresh = DrawTarget::from_vec(w, h, before.clone());
                    fresh.set_transform(&to_transform(xf));
                    apply(&mut fresh, op);
                    let un = fresh.get_data();
                    for i in 0..before.len() {
                        let (x, y) = (i as i32 % w, i as i32 / w);
                        if ctx.in_rects(x, y) && after[i] != un[i] {
                            return Err(format!(
                                "{} under rectangular clips {:?}: pixel ({},{}) inside the clip is {} but the unclipped drawing gives {}",
                                op.kind(),
                                ctx.entries,
                                x,
                                y,
                                hex(after[i]),
                                hex(un[i])
                            ));
                        }
                    }
                    wk.o.judged += before.len() as u64;
                    wk.o.class("judged:rect-only-exact");
                } else if exact {
                    // (iii) stacks with paths: the amount of change is scaled by the product of the path coverages
                    if let Some(m) = model_draw(op, xf, w, h) {
                        let cs = ctx.combined(w, h);
                        let tol = TOL + ctx.n_paths() as f64;
                        let mut partial = false;
                        for i in 0..before.len() {
                            if let Err(e) = judge_pixel(m.mode, m.s_img[i], before[i], &m.ms[i], &cs[i], after[i], tol) {
                                return Err(format!("{} under clip stack {:?}: pixel ({},{}): {}", op.kind(), wk.kinds, i as i32 % w, i as i32 / w, e));
                            }
                            if cs[i].iter().any(|c| *c > 0 && *c < 255) {
                                partial = true;
                            }
                        }
                        wk.o.judged += before.len() as u64;
                        wk.o.class("judged:path-clip-formula");
                        wk.o.class_if(partial, "partial-clip-coverage-probed");
                    }
                }
                let k = &wk.kinds;
                let mixed = k.contains(&'r') && k.contains(&'p');
                if mixed || wk.popped_before_draw {
                    wk.o.nontrivial = true;
                }
                wk.o.class_if(k.windows(2).any(|p| p[0] == 'p' && p[1] == 'r'), "rect-after-path");
                wk.o.class_if(k.windows(2).any(|p| p[0] == 'r' && p[1] == 'p'), "path-after-rect");
                wk.o.class_if(k.len() >= 3, "depth>=3");
                wk.o.class_if(wk.popped_before_draw, "draw-after-pop");
                let empty = ctx.n_rects() >= 2 && !(0..w * h).any(|i| ctx.in_rects(i % w, i / w));
                if empty {
                    wk.o.nontrivial = true;
                }
                wk.o.class_if(empty, "empty-intersection");
            }
            Node::Clip(push, inner) => {
                apply(dt, push);
                let ok = ctx.push(push, xf, w, h);
                if !ok {
                    // keep the stacks aligned: an unmodellable path is recorded as "anything"
                    ctx.entries.push(ClipEntry::Path(vec![vec![0, 255]; (w * h) as usize]));
                }
                wk.exact_ok.push(ok);
                wk.kinds.push(if matches!(push, Op::PushClipRect(..)) { 'r' } else { 'p' });
                wk.o.class_if(matches!(push, Op::PushClipPath(_)) && xf_det(xf) == 0.0, "clip-path-pushed-under-a-singular-transform");
                if let Op::PushClipRect(a, b, c, d) = push {
                    wk.o.class_if(c < a || d < b, "inverted-rect");
                }
                walk(inner, dt, ctx, xf, wk)?;
                apply(dt, &Op::PopClip);
                ctx.pop();
                wk.exact_ok.pop();
                wk.kinds.pop();
                wk.popped_before_draw = true;
            }
            Node::Layer(..) => unreachable!("C05 scenes carry no layers"),
        }
    }
    Ok(())
}

pub fn check(c: &Case) -> CheckResult {
    let mut o = Outcome::new();
    o.fp = fp_of(c);
    let mut dt = new_target(c.w, c.h, &c.init);
    let mut ctx = ClipCtx::default();
    let mut xf = IDENT;
    let mut wk = Walk { w: c.w, h: c.h, o: &mut o, kinds: vec![], popped_before_draw: false, exact_ok: vec![] };
    walk(&c.nodes, &mut dt, &mut ctx, &mut xf, &mut wk)?;
    Ok(o)
}

pub fn strategy(ctx: &Ctx) -> BoxedStrategy<Case> {
    let ctx = ctx.clone();
    (2i32..=10, 2i32..=10)
        .prop_flat_map(move |(w, h)| {
            let mut d = Domain::exact(w, h);
            d.max_depth = 5;
            d.max_nodes = 4;
            (Just((w, h)), init_pixels(w, h), tree(&ctx, &d), prop::option::weighted(0.12, xf_singular()))
        })
        .prop_map(|((w, h), init, mut nodes, sing)| {
            // one history in eight pushes its first top-level clip path while a non-invertible transform is set (the
            // transform is put back before anything is drawn under it): such a clip hides everything
            if let Some(sx) = sing {
                if let Some(i) = nodes.iter().position(|n| matches!(n, Node::Clip(Op::PushClipPath(_), _))) {
                    if let Node::Clip(_, kids) = &mut nodes[i] {
                        kids.insert(0, Node::Op(Op::SetXf(IDENT)));
                    }
                    nodes.insert(i, Node::Op(Op::SetXf(sx)));
                }
            }
            Case { w, h, init, nodes }
        })
        .boxed()
}

// ---------------------------------------------------------------------------
// order independence (0/255 coverages: bit-identical)

#[derive(Clone, Debug, Serialize, Deserialize)]
pub struct OrderCase {
    pub w: i32,
    pub h: i32,
    pub init: Vec<u32>,
    pub clips: Vec<Op>,
    pub keys: Vec<u8>,
    pub draw: Op,
}

pub fn check_order(c: &OrderCase) -> CheckResult {
    let mut o = Outcome::new();
    o.fp = fp_of(c);
    let run = |order: &[usize]| -> Vec<u32> {
        let mut dt = new_target(c.w, c.h, &c.init);
        for i in order {
            apply(&mut dt, &c.clips[*i]);
        }
        apply(&mut dt, &c.draw);
        for _ in order {
            dt.pop_clip();
        }
        dt.get_data().to_vec()
    };
    let a: Vec<usize> = (0..c.clips.len()).collect();
    let mut b = a.clone();
    b.sort_by_key(|i| (c.keys[*i % c.keys.len()], *i));
    let (pa, pb) = (run(&a), run(&b));
    for i in 0..pa.len() {
        if pa[i] != pb[i] {
            return Err(format!(
                "pushing the same clips in order {:?} instead of {:?} changes pixel ({},{}): {} vs {} (all path coverages are 0/255, so the intersection is exact in any order)",
                b,
                a,
                i as i32 % c.w,
                i as i32 / c.w,
                hex(pb[i]),
                hex(pa[i])
            ));
        }
    }
    o.judged = pa.len() as u64;
    let kinds: Vec<bool> = c.clips.iter().map(|c| matches!(c, Op::PushClipRect(..))).collect();
    o.nontrivial = a != b && kinds.iter().any(|k| *k) && kinds.iter().any(|k| !*k) && pa != c.init;
    o.class_if(a != b, "reordered");
    Ok(o)
}

fn order_strategy(ctx: &Ctx) -> BoxedStrategy<OrderCase> {
    let ctx = ctx.clone();
    (2i32..=10, 2i32..=10)
        .prop_flat_map(move |(w, h)| {
            let clip = prop_oneof![
                1 => int_rect(w, h).prop_map(|(a, b, c, d)| Op::PushClipRect(a, b, c, d)),
                1 => pixel_rects_path(w, h).prop_map(Op::PushClipPath),
            ];
            let mut d = Domain::free(w, h);
            d.layers = false;
            (Just((w, h)), init_pixels(w, h), prop::collection::vec(clip, 2..=4), prop::collection::vec(any::<u8>(), 4), draw_op(&ctx, &d))
        })
        .prop_map(|((w, h), init, clips, keys, draw)| OrderCase { w, h, init, clips, keys, draw })
        .boxed()
}

// ---------------------------------------------------------------------------
// pop restores: deleting balanced, draw-free push...pop blocks changes nothing

#[derive(Clone, Debug, Serialize, Deserialize)]
pub struct NoopCase {
    pub w: i32,
    pub h: i32,
    pub init: Vec<u32>,
    pub nodes: Vec<Node>,
    /// draw-free clip groups inserted before top-level node (index % (len+1))
    pub blocks: Vec<(usize, Node)>,
}

pub fn check_noop(c: &NoopCase) -> CheckResult {
    let mut o = Outcome::new();
    o.fp = fp_of(c);
    let base = flat(&c.nodes);
    let mut with: Vec<Node> = c.nodes.clone();
    for (pos, b) in &c.blocks {
        let at = pos % (with.len() + 1);
        with.insert(at, b.clone());
    }
    let noisy = flat(&with);
    let run = |ops: &[Op]| {
        let mut dt = new_target(c.w, c.h, &c.init);
        for op in ops {
            apply(&mut dt, op);
        }
        dt.get_data().to_vec()
    };
    let (pa, pb) = (run(&base), run(&noisy));
    for i in 0..pa.len() {
        if pa[i] != pb[i] {
            return Err(format!(
                "inserting balanced, draw-free push_clip.. pop_clip blocks changes pixel ({},{}): {} vs {} (pop_clip must restore exactly the clip in force before the matching push)",
                i as i32 % c.w,
                i as i32 / c.w,
                hex(pb[i]),
                hex(pa[i])
            ));
        }
    }
    o.judged = pa.len() as u64;
    o.nontrivial = !c.blocks.is_empty() && count_draws(&c.nodes) > 0 && pa != c.init;
    Ok(o)
}

fn noop_strategy(ctx: &Ctx) -> BoxedStrategy<NoopCase> {
    let ctx = ctx.clone();
    (2i32..=10, 2i32..=10)
        .prop_flat_map(move |(w, h)| {
            let mut d = Domain::free(w, h);
            d.layers = false;
            d.max_nodes = 4;
            let dd = d.clone();
            let block = (clip_push(&dd), prop::option::of(clip_push(&dd))).prop_map(|(a, b)| Node::Clip(a, b.map(|b| vec![Node::Clip(b, vec![])]).unwrap_or_default()));
            (Just((w, h)), init_pixels(w, h), tree(&ctx, &d), prop::collection::vec((0usize..8, block), 1..=3))
        })
        .prop_map(|((w, h), init, nodes, blocks)| NoopCase { w, h, init, nodes, blocks })
        .boxed()
}

// ---------------------------------------------------------------------------
// clips interleaved with layers: a layer group under >= 2 clips of both kinds (either order), judged by
// C06's isolated-group reference (the clip in force limits both the drawing into the layer and its pop)

fn layered_strategy(ctx: &Ctx) -> BoxedStrategy<super::c06::Case> {
    let ctx = ctx.clone();
    (3i32..=10, 3i32..=10)
        .prop_flat_map(move |(w, h)| {
            let mut d = Domain::exact(w, h);
            d.layers = true;
            d.max_depth = 3;
            d.max_nodes = 3;
            let rect = int_rect(w, h).prop_map(|(a, b, c, dd)| Op::PushClipRect(a, b, c, dd));
            // a rect narrower than the surface with a non-zero origin, so that the layer is offset and narrow
            let narrow = (0..w - 1, 0..h - 1).prop_flat_map(move |(x, y)| (Just(x), Just(y), x + 1..=w, y + 1..=h)).prop_map(|(a, b, c, dd)| Op::PushClipRect(a, b, c, dd));
            let path = prop_oneof![grid_poly(w, h, false), pixel_rects_path(w, h)].prop_map(Op::PushClipPath);
            let clips = prop_oneof![
                (prop_oneof![rect.clone(), narrow.clone()], path.clone()).prop_map(|(a, b)| vec![a, b]),
                (path.clone(), prop_oneof![rect.clone(), narrow.clone()]).prop_map(|(a, b)| vec![a, b]),
                (narrow.clone(), path.clone(), rect.clone()).prop_map(|(a, b, c)| vec![a, b, c]),
                (path.clone(), narrow, path).prop_map(|(a, b, c)| vec![a, b, c]),
            ];
            (Just((w, h)), init_pixels(w, h), clips, alpha_f(), blend_biased(), tree(&ctx, &d))
        })
        .prop_map(|((w, h), init, clips, op, bl, inner)| {
            let mut node = Node::Layer(Fl(op), bl, inner);
            for c in clips.into_iter().rev() {
                node = Node::Clip(c, vec![node]);
            }
            super::c06::Case { w, h, init, nodes: vec![node] }
        })
        .boxed()
}


// ---------------------------------------------------------------------------
// clips pushed while a layer is open that was itself pushed under a clip popped since

#[derive(Clone, Debug, Serialize, Deserialize)]
pub struct UnderLayerCase {
    pub w: i32,
    pub h: i32,
    pub init: Vec<u32>,
    /// the clip rectangle the (empty, opaque SrcOver) layer is pushed under; popped while the layer is open
    pub rect: (i32, i32, i32, i32),
    /// pushed while that layer is open, still in force after pop_layer
    pub clips: Vec<Op>,
    pub draw: Op,
}

/// The clip stack does not belong to the layer stack: clips pushed while a layer is open are the clips in force
/// afterwards, over the whole surface, however small the layer was.
pub fn check_under_layer(c: &UnderLayerCase) -> CheckResult {
    let mut o = Outcome::new();
    o.fp = fp_of(c);
    let (w, h) = (c.w, c.h);
    let mut dt = new_target(w, h, &c.init);
    dt.push_clip_rect(irect(c.rect.0, c.rect.1, c.rect.2, c.rect.3));
    dt.push_layer(1.0);
    dt.pop_clip();
    let mut ctx = ClipCtx::default();
    let mut exact = true;
    for cl in &c.clips {
        apply(&mut dt, cl);
        if !ctx.push(cl, &IDENT, w, h) {
            ctx.entries.push(ClipEntry::Path(vec![vec![0, 255]; (w * h) as usize]));
            exact = false;
        }
    }
    dt.pop_layer();
    if dt.get_data() != &c.init[..] {
        return Err("popping an empty opaque SrcOver layer changed the surface".into());
    }
    let before = dt.get_data().to_vec();
    apply(&mut dt, &c.draw);
    let after = dt.get_data().to_vec();
    for i in 0..before.len() {
        let (x, y) = (i as i32 % w, i as i32 / w);
        if !ctx.in_rects(x, y) && after[i] != before[i] {
            return Err(format!("{} changed pixel ({},{}) from {} to {} although it lies outside a clip rectangle pushed while the layer was open", c.draw.kind(), x, y, hex(before[i]), hex(after[i])));
        }
    }
    let mut outside_layer_judged = 0;
    if exact {
        if let Some(m) = model_draw(&c.draw, &IDENT, w, h) {
            let cs = ctx.combined(w, h);
            let tol = TOL + ctx.n_paths() as f64;
            for i in 0..before.len() {
                let (x, y) = (i as i32 % w, i as i32 / w);
                if let Err(e) = judge_pixel(m.mode, m.s_img[i], before[i], &m.ms[i], &cs[i], after[i], tol) {
                    return Err(format!(
                        "layer pushed under clip rect {:?} (popped since), {} clips pushed while it was open, layer popped, then {}: pixel ({},{}): {}",
                        c.rect,
                        c.clips.len(),
                        c.draw.kind(),
                        x,
                        y,
                        e
                    ));
                }
                let in_layer = x >= c.rect.0 && x < c.rect.2 && y >= c.rect.1 && y < c.rect.3;
                if !in_layer && m.ms[i].iter().any(|b| *b > 0) {
                    outside_layer_judged += 1;
                }
            }
            o.judged += before.len() as u64;
        }
    }
    o.nontrivial = outside_layer_judged > 0 && ctx.n_paths() >= 1;
    o.class_if(ctx.n_paths() >= 2, "two-clip-paths-pushed-inside-the-layer");
    o.class_if(outside_layer_judged > 0, "draw-judged-outside-the-old-layer");
    Ok(o)
}

fn under_layer_strategy(ctx: &Ctx) -> BoxedStrategy<UnderLayerCase> {
    let ctx = ctx.clone();
    (4i32..=12, 4i32..=12)
        .prop_flat_map(move |(w, h)| {
            let d = Domain::exact(w, h);
            let rect = (0..w - 1, 0..h - 1).prop_flat_map(move |(x0, y0)| (Just(x0), Just(y0), x0..=(x0 + 3).min(w), y0..=(y0 + 3).min(h)));
            let path_clip = grid_poly(w, h, false).prop_map(Op::PushClipPath);
            let clips = prop::collection::vec(prop_oneof![3 => path_clip.boxed(), 1 => clip_push(&d)], 2..=3);
            (Just((w, h)), init_pixels(w, h), rect, clips, draw_op(&ctx, &d))
        })
        .prop_map(|((w, h), init, rect, clips, draw)| UnderLayerCase { w, h, init, rect, clips, draw })
        .boxed()
}

pub fn property(ctx: &Ctx) -> Property {
    let (c1, c2, c3) = (ctx.clone(), ctx.clone(), ctx.clone());
    let c4 = ctx.clone();
    let c5 = ctx.clone();
    Property {
        id: "C05",
        rule: "part stack: nested histories (depth <= 5) of push_clip_rect (inside, overlapping, disjoint, inverted, off-surface) and push_clip of quarter-grid polygons (exact coverage from the 4x4 model), quarter-pixel transform changes between pushes, with fill / fill_rect / mask / clear / draw_image_at draws (28 modes, all sources) after every change; after each draw every pixel is judged: outside any pushed rectangle unchanged; rect-only stacks bit-identical to the unclipped draw inside the intersection; with paths the compositor formula with clip coverage = product of all pushed path coverages (exact at 0 and full, +-(3+n)/255 otherwise). part order: the same 2-4 clips (clip rects and clip paths made of pixel-aligned rectangles, coverages exactly 0/255) pushed in two orders give bit-identical pixels for any draw. part noop: inserting balanced draw-free push..pop blocks changes no pixel. part layers: a layer group (any opacity/blend, non-SrcOver draws inside) pushed under 2-3 clips of both kinds in every order, incl. rectangles narrower than the surface with a non-zero origin, judged by the isolated-group reference of C06. Non-trivial: a draw under live clips of both kinds, a draw after a pop, or an empty intersection of rectangles; distinct by hash of the case. part under-layer: a layer pushed under a small clip rectangle that is popped while the layer is open; 2-3 clips (mostly quarter-grid paths) pushed while it is open; the layer popped (empty, opaque: no change); then one draw, judged over the whole surface with exactly those clips by the same formula (the clip stack does not belong to the layer).",
        assumptions: vec!["clip paths are quarter-grid polygons under quarter-pixel translations so that their coverage is known exactly (curved clip paths: C08)", "part layers reuses C06's oracle (isolated group on a separate surface) for clips interleaved with layers"],
        parts: vec![
            part("stack", 100_000, 1_500_000, move || strategy(&c1), check),
            part("order", 40_000, 600_000, move || order_strategy(&c2), check_order),
            part("noop", 30_000, 500_000, move || noop_strategy(&c3), check_noop),
            part("layers", 30_000, 500_000, move || layered_strategy(&c4), super::c06::check),
            part("under-layer", 20_000, 400_000, move || under_layer_strategy(&c5), check_under_layer),
        ],
        min_class_fraction: vec![("stack", "rect-after-path", 0.05), ("stack", "path-after-rect", 0.05), ("stack", "depth>=3", 0.05), ("stack", "draw-after-pop", 0.2), ("stack", "judged:path-clip-formula", 0.2), ("order", "reordered", 0.4), ("under-layer", "two-clip-paths-pushed-inside-the-layer", 0.3), ("under-layer", "draw-judged-outside-the-old-layer", 0.3)],
        panic_is_violation: false,
    }
}
