//! C08 — curved paths fill their true interior (quads, cubics, arcs, any transform).

use crate::gen::*;
use crate::geom::*;
use crate::runner::*;
use crate::scene::*;
use proptest::prelude::*;
use raqote::*;
use serde::{Deserialize, Serialize};

#[derive(Clone, Debug, Serialize, Deserialize)]
pub struct Case {
    pub w: i32,
    pub h: i32,
    pub path: PathSpec,
    pub xf: Xf,
    /// false: fill(path); true: push_clip(path) then fill the surface
    pub as_clip: bool,
    /// PathBuilder::arc(cx, cy, r, start, sweep) calls made on the same builder just before op `index` of
    /// `path.ops` (index == ops.len(): at the end)
    #[serde(default)]
    pub arcs: Vec<(u32, [f32; 5])>,
}

/// the path as the caller builds it: one PathBuilder, arcs through PathBuilder::arc
pub fn build_real(c: &Case) -> Path {
    let mut pb = PathBuilder::new();
    for i in 0..=c.path.ops.len() {
        for (at, a) in &c.arcs {
            if *at as usize == i {
                pb.arc(a[0], a[1], a[2], a[3], a[4]);
            }
        }
        if let Some(op) = c.path.ops.get(i) {
            match *op {
                POp::M(x, y) => pb.move_to(x, y),
                POp::L(x, y) => pb.line_to(x, y),
                POp::Q(a, b, x, y) => pb.quad_to(a, b, x, y),
                POp::C(a, b, cc, d, x, y) => pb.cubic_to(a, b, cc, d, x, y),
                POp::Z => pb.close(),
            }
        }
    }
    let mut p = pb.finish();
    p.winding = if c.path.evenodd { Winding::EvenOdd } else { Winding::NonZero };
    p
}

/// the path the statement describes: an arc is a straight line from the current point to the arc's starting
/// point followed by the true circular arc (f64, sampled every quarter of a device-independent unit at most),
/// a sweep beyond a full turn being one full circle
pub fn model_path(c: &Case) -> PathSpec {
    let mut ops: Vec<POp> = Vec::new();
    for i in 0..=c.path.ops.len() {
        for (at, a) in &c.arcs {
            if *at as usize == i {
                let (cx, cy, r, a0) = (a[0] as f64, a[1] as f64, a[2] as f64, a[3] as f64);
                let sweep = (a[4] as f64).clamp(-2.0 * std::f64::consts::PI, 2.0 * std::f64::consts::PI);
                let n = ((sweep.abs() * 64.0).ceil() as usize).max(1);
                for k in 0..=n {
                    let t = a0 + sweep * k as f64 / n as f64;
                    ops.push(POp::L((cx + r * t.cos()) as f32, (cy + r * t.sin()) as f32));
                }
            }
        }
        if let Some(op) = c.path.ops.get(i) {
            ops.push(*op);
        }
    }
    PathSpec { ops, evenodd: c.path.evenodd }
}

/// margin of the statement (1 px) plus the pixel's half diagonal: the whole pixel is more than 1 px from the outline
const MARGIN: f64 = 1.0 + 0.70711;

pub fn render(c: &Case) -> Vec<u32> {
    let mut dt = blank_target(c.w, c.h);
    let white = Source::Solid(SolidSource { r: 255, g: 255, b: 255, a: 255 });
    // (C10's harmless preludes, e.g. an unrelated clip path pushed and popped: their path state must not reach
    // the path under test, which may well begin without a move_to)
    harmless_prelude(&mut dt, (c.w * 7 + c.h * 13 + (c.path.ops.len() + c.arcs.len()) as i32 * 5) as u32 % 12);
    dt.set_transform(&to_transform(&c.xf));
    let p = build_real(c);
    if c.as_clip {
        dt.push_clip(&p);
        dt.set_transform(&Transform::identity());
        dt.fill_rect(-1.0, -1.0, c.w as f32 + 2.0, c.h as f32 + 2.0, &white, &DrawOptions::new());
        dt.pop_clip();
    } else {
        dt.fill(&p, &white, &DrawOptions::new());
    }
    dt.get_data().to_vec()
}

pub fn check(c: &Case) -> CheckResult {
    let got = render(c);
    let model = model_path(c);
    let subs = walk(&model, &c.xf);
    let polys = fine(&subs, 0.08);
    let cls = classify_pixels(&polys, c.w, c.h, MARGIN + 0.5);
    let mut o = Outcome::new();
    o.fp = fp_of(c);
    let (mut ins, mut outs) = (0, 0);
    for i in 0..got.len() {
        let (wn, d) = cls[i];
        if d <= MARGIN {
            o.undecided += 1;
            continue;
        }
        let inside = if c.path.evenodd { wn & 1 != 0 } else { wn != 0 };
        let a = got[i] >> 24;
        o.judged += 1;
        if inside {
            ins += 1;
            if got[i] != 0xffff_ffff {
                return Err(format!(
                    "pixel ({},{}) lies inside the exact shape (winding {}, {:.2} px from the outline) but is {} instead of fully painted ({})",
                    i as i32 % c.w,
                    i as i32 / c.w,
                    wn,
                    d,
                    hex(got[i]),
                    if c.as_clip { "clip path" } else { "fill" }
                ));
            }
        } else {
            outs += 1;
            if a != 0 || got[i] != 0 {
                return Err(format!(
                    "pixel ({},{}) lies outside the exact shape (winding {}, {:.2} px from the outline) but is {} instead of untouched ({})",
                    i as i32 % c.w,
                    i as i32 / c.w,
                    wn,
                    d,
                    hex(got[i]),
                    if c.as_clip { "clip path" } else { "fill" }
                ));
            }
        }
    }
    let curves = c.path.has_curves() || !c.arcs.is_empty();
    o.nontrivial = curves && ins > 0 && outs > 0;
    o.class_if(!c.arcs.is_empty(), "arc");
    o.class_if(c.arcs.iter().any(|(at, _)| *at > 0 && matches!(c.path.ops.get(*at as usize - 1), Some(POp::Z))), "arc-directly-after-close");
    o.class_if(c.arcs.iter().any(|(at, _)| *at == 0), "arc-first");
    o.class_if(curves, "has-curve");
    o.class_if(c.as_clip, "as-clip-path");
    {
        let starts: Vec<(f32, f32)> = c.path.ops.iter().filter_map(|o| if let POp::M(x, y) = *o { Some((x, y)) } else { None }).collect();
        o.class_if(starts.len() >= 6 && starts.iter().all(|p| *p == starts[0]), "fan-of-six-or-more-slices-sharing-an-apex");
    }
    o.class_if(c.path.evenodd, "evenodd");
    o.class(classify_xf(&c.xf));
    let mut after_close = false;
    for w in model.ops.windows(2) {
        if matches!(w[0], POp::Z) && !matches!(w[1], POp::M(..) | POp::Z) {
            after_close = true;
        }
    }
    o.class_if(after_close, "draw-after-close");
    o.class_if(matches!(c.path.ops.first(), Some(POp::Q(..) | POp::C(..))), "curve-first");
    o.class_if(model.points().iter().any(|p| p.0.abs() > 200.0 || p.1.abs() > 200.0), "far-control-point");
    // non-monotonic-in-y quad
    let mut nonmono = false;
    for s in &subs {
        for e in &s.elems {
            if let Elem::Quad(a, b, cc) = e {
                if (b.1 - a.1) * (cc.1 - b.1) < 0.0 {
                    nonmono = true;
                }
            }
        }
    }
    o.class_if(nonmono, "non-monotonic-quad");
    {
        let mut barely = false;
        for sp in &subs {
            for e in &sp.elems {
                if let Elem::Quad(a, b, cc) = e {
                    let dd = (a.1 - 2.0 * b.1 + cc.1).abs();
                    let t = if dd > 0.0 { (a.1 - b.1) / (a.1 - 2.0 * b.1 + cc.1) } else { -1.0 };
                    barely |= dd > 1000.0 && t > 0.0 && t < 1.0 / 200.0;
                }
            }
        }
        o.class_if(barely, "tall-quad-with-turning-point-before-t=1/200");
    }
    let mut level = false;
    for sp in &subs {
        for e in &sp.elems {
            match e {
                Elem::Quad(a, b, cc) => level |= b.1 == a.1 || b.1 == cc.1,
                Elem::Cubic(a, b, cc, d) => level |= b.1 == a.1 || cc.1 == d.1,
                _ => {}
            }
        }
    }
    o.class_if(level, "control-point-level-with-endpoint");
    o.class_if(subs.iter().any(|s| s.elems.iter().any(|e| e.start().1 < 0.0 && e.is_curve())), "curve-starts-above-row0");
    Ok(o)
}

/// an arc is carried through the generator as a marker op (NaN-tagged MoveTo is not used: a separate list is)
#[derive(Clone, Debug)]
enum SegOp {
    P(POp),
    A([f32; 5]),
    Many(Vec<POp>),
}

pub fn path_strategy(ext: f32) -> BoxedStrategy<(PathSpec, Vec<(u32, [f32; 5])>)> {
    let near = move || coord(ext);
    let far = || prop_oneof![-1500.0f32..1500.0, Just(1500.0f32), Just(-1500.0f32)];
    // coordinate: mostly near, sometimes far (control points far outside the surface)
    let c = move |farness: u8| -> BoxedStrategy<f32> {
        if farness == 0 {
            near().boxed()
        } else {
            prop_oneof![5 => near(), 1 => far()].boxed()
        }
    };
    (0u8..4)
        .prop_flat_map(move |f| {
            let farness = if f == 0 { 1 } else { 0 };
            let pt = move || (c(farness), c(farness));
            let seg = prop_oneof![
                3 => pt().prop_map(|(x, y)| SegOp::P(POp::L(x, y))),
                4 => (pt(), pt()).prop_map(|((a, b), (x, y))| SegOp::P(POp::Q(a, b, x, y))),
                4 => (pt(), pt(), pt()).prop_map(|((a, b), (cc, d), (x, y))| SegOp::P(POp::C(a, b, cc, d, x, y))),
                1 => pt().prop_map(|(x, y)| SegOp::P(POp::M(x, y))),
                2 => Just(SegOp::P(POp::Z)),
                2 => (near(), near(), 0.5f32..ext, -7.0f32..7.0, -7.0f32..7.0).prop_map(|(x, y, r, a, s)| SegOp::A([x, y, r, a, s])),
                // a tall quadratic (2000..3000 units) that is *barely* not monotonic in y: its control point lies a
                // few units beyond the start, so the turning point sits at t = 1/250..1/1000 (treating it as
                // monotonic moves the outline by several pixels where it crosses the surface)
                1 => (near(), near(), near(), 1000.0f32..1500.0, 1000.0f32..1500.0, prop::sample::select(vec![250.0f32, 300.0, 600.0, 1000.0]), any::<bool>()).prop_map(|(x0, cx, x, a, b, q, up)| {
                    let (y0, y1) = if up { (a, -b) } else { (-a, b) };
                    let d = (y1 - y0).abs() / q;
                    let cy = if up { y0 + d } else { y0 - d };
                    SegOp::Many(vec![POp::L(x0, y0), POp::Q(cx, cy, x, y1)])
                }),
                // degenerate control polygons: cusp / coincident control points
                1 => (pt(), pt()).prop_map(|((a, b), (x, y))| SegOp::P(POp::C(a, b, a, b, x, y))),
                1 => pt().prop_map(|(x, y)| SegOp::P(POp::Q(x, y, x, y))),
            ];
            (prop::option::weighted(0.85, pt()), prop::collection::vec(seg, 2..=7), any::<bool>(), any::<bool>())
        })
        .prop_map(|(start, segs, close, evenodd)| {
            let mut ops = Vec::new();
            if let Some((x, y)) = start {
                ops.push(POp::M(x, y));
            }
            let mut arcs: Vec<(u32, [f32; 5])> = Vec::new();
            for s in segs {
                match s {
                    SegOp::P(op) => ops.push(op),
                    SegOp::Many(v) => ops.extend(v),
                    SegOp::A(a) => arcs.push((ops.len() as u32, a)),
                }
            }
            // exact coincidences that random floats never produce: a control point level with the curve's
            // start or end (horizontal end tangent: the monotonicity test's `ab == 0` branch), or with the same x
            let mut prev: Option<(f32, f32)> = None;
            for (k, op) in ops.iter_mut().enumerate() {
                let sel = k % 5;
                match op {
                    POp::Q(cx, cy, x, y) => {
                        if let Some(p) = prev {
                            match sel {
                                0 => *cy = p.1,
                                1 => *cy = *y,
                                2 => *cx = p.0,
                                _ => {}
                            }
                        }
                        prev = Some((*x, *y));
                    }
                    POp::C(ax, ay, bx, by, x, y) => {
                        if let Some(p) = prev {
                            match sel {
                                0 => *ay = p.1,
                                1 => *by = *y,
                                2 => {
                                    *ax = p.0;
                                    *bx = *x;
                                }
                                _ => {}
                            }
                        }
                        prev = Some((*x, *y));
                    }
                    POp::M(x, y) | POp::L(x, y) => prev = Some((*x, *y)),
                    POp::Z => {}
                }
            }
            if close {
                ops.push(POp::Z);
            }
            (PathSpec { ops, evenodd }, arcs)
        })
        .boxed()
}

/// a fan: 6..16 triangular slices sharing one apex, each its own closed subpath, listed by increasing or by
/// decreasing angle (a pie chart, a sunburst): many edges start at one point, and in one of the two listing orders
/// the order in which they were added is the reverse of their order along every row below the apex
fn fan_strategy(ext: f32) -> BoxedStrategy<PathSpec> {
    (0.2f32..0.8, 0.0f32..0.45, 5.0f32..40.0, prop::collection::vec((prop::sample::select(vec![2.5f32, 4.0, 6.0, 10.0, 40.0]), 2.0f32..5.0), 6..=16), 0.8f32..2.5, any::<bool>(), any::<bool>(), 0.0f32..360.0)
        .prop_map(move |(fx, fy, a0, slices, r, rev, evenodd, turn)| {
            let (ax, ay) = (((fx * ext) * 4.0).round() / 4.0, ((fy * ext) * 4.0).round() / 4.0);
            let r = r * ext;
            // half of the fans point downwards from an apex near the top (slices between 5 and 175 degrees, y down);
            // the others are turned by any angle
            let turn = if (slices.len() + rev as usize) % 2 == 0 { 0.0 } else { turn };
            let mut tris: Vec<[(f32, f32); 2]> = Vec::new();
            let mut a = a0;
            for (wd, gap) in &slices {
                if a + wd > 175.0 {
                    break;
                }
                let p = |deg: f32| {
                    let t = ((deg + turn) as f64).to_radians();
                    (ax + (r as f64 * t.cos()) as f32, ay + (r as f64 * t.sin()) as f32)
                };
                tris.push([p(a), p(a + wd)]);
                a += wd + gap;
            }
            if rev {
                tris.reverse();
            }
            let mut ops = Vec::new();
            for t in &tris {
                ops.extend([POp::M(ax, ay), POp::L(t[0].0, t[0].1), POp::L(t[1].0, t[1].1), POp::Z]);
            }
            PathSpec { ops, evenodd }
        })
        .boxed()
}

pub fn strategy() -> BoxedStrategy<Case> {
    (12i32..=32, 12i32..=32)
        .prop_flat_map(|(w, h)| {
            let ext = w.max(h) as f32;
            let zoom = prop_oneof![12 => Just(1.0f32), 1 => Just(4096.0f32), 1 => Just(65536.0f32), 1 => Just(1.0f32 / 64.0), 1 => Just(1.0f32 / 4096.0)];
            (Just((w, h)), prop_oneof![14 => path_strategy(ext), 1 => fan_strategy(ext).prop_map(|p| (p, Vec::new()))], prop_oneof![3 => Just(IDENT), 4 => xf_invertible(6.0)], prop::bool::weighted(0.3), zoom)
        })
        .prop_map(|((w, h), (path, arcs), xf, as_clip, zoom)| {
            // keep device-space geometry within the working range (+-4000 px)
            let mut xf = xf;
            let mut arcs = arcs;
            let maxc = path.points().iter().fold(1.0f64, |m, p| m.max(p.0.abs() as f64).max(p.1.abs() as f64));
            let maxc = arcs.iter().fold(maxc, |m, (_, a)| m.max((a[0].abs() + a[2]) as f64).max((a[1].abs() + a[2]) as f64));
            let norm = (xf[0].abs() + xf[2].abs()).max(xf[1].abs() + xf[3].abs()) as f64;
            if maxc * norm + 10.0 > 3900.0 {
                let s = (3900.0 / (maxc * norm + 10.0)) as f32;
                for v in xf.iter_mut().take(4) {
                    *v *= s;
                }
            }
            // zoom: the same picture in user units `zoom` times smaller under a CTM `zoom` times larger
            let mut path = path;
            if zoom != 1.0 {
                for op in path.ops.iter_mut() {
                    *op = match *op {
                        POp::M(x, y) => POp::M(x / zoom, y / zoom),
                        POp::L(x, y) => POp::L(x / zoom, y / zoom),
                        POp::Q(a, b, x, y) => POp::Q(a / zoom, b / zoom, x / zoom, y / zoom),
                        POp::C(a, b, c, d, x, y) => POp::C(a / zoom, b / zoom, c / zoom, d / zoom, x / zoom, y / zoom),
                        POp::Z => POp::Z,
                    };
                }
                for (_, a) in arcs.iter_mut() {
                    a[0] /= zoom;
                    a[1] /= zoom;
                    a[2] /= zoom;
                }
                for v in xf.iter_mut().take(4) {
                    *v *= zoom;
                }
            }
            Case { w, h, path, xf, as_clip, arcs }
        })
        .boxed()
}

pub fn property(_ctx: &Ctx) -> Property {
    Property {
        id: "C08",
        rule: "cases: paths of 2-8 ops mixing move/line/quad/cubic/arc/close in any order (curve first, directly after close, cusps, coincident control points, control points up to +-1500 units), one case in fifteen a fan of 6..16 triangular slices sharing an apex and listed by increasing or decreasing angle (many edges through one point), both winding rules, identity / translation / rotation x scale / non-uniform scale / shear / mirror transforms (device geometry within +-4000 px), optionally with user space zoomed (units 4096 or 65536 times smaller, or 64 times larger, under a correspondingly scaled CTM), used as fill path or as clip path (in a third of the cases after an unrelated clip path was pushed and popped), white on transparent, 12..32 px surfaces. Oracle: f64 path walker with the statement's cursor rules, curves evaluated densely (<=0.08 px steps), winding number and distance to the outline per pixel centre; a pixel whose centre is more than 1 px + half a pixel diagonal from the outline must be exactly 0xffffffff when inside by the rule and exactly 0 when outside. Non-trivial: path with >=1 curve and >=1 judged-inside and >=1 judged-outside pixel; distinct by hash of the case.",
        assumptions: vec!["pixels within 1.71 px of the outline are not judged (counted as undecided)", "arcs are made with PathBuilder::arc on the same builder as the other ops and judged against the true circle (line to the starting point, then the circular arc; C20 bounds the radial error by 0.5 % of r, far inside the 1 px margin here)"],
        parts: vec![part("fill", 80_000, 1_500_000, strategy, check)],
        min_class_fraction: vec![("fill", "has-curve", 0.7), ("fill", "fan-of-six-or-more-slices-sharing-an-apex", 0.025), ("fill", "as-clip-path", 0.15), ("fill", "draw-after-close", 0.05), ("fill", "non-monotonic-quad", 0.15), ("fill", "far-control-point", 0.05), ("fill", "curve-starts-above-row0", 0.1), ("fill", "control-point-level-with-endpoint", 0.1), ("fill", "arc", 0.2), ("fill", "arc-directly-after-close", 0.02)],
        panic_is_violation: false,
    }
}
