//! C11 — the current transform acts on geometry and sources as one user space.

use crate::gen::*;
use crate::runner::*;
use crate::scene::*;
use crate::tree::*;
use proptest::prelude::*;
use raqote::*;
use serde::{Deserialize, Serialize};

fn diff(a: &[u32], b: &[u32], w: i32) -> Option<String> {
    (0..a.len()).find(|i| a[*i] != b[*i]).map(|i| format!("pixel ({},{}): {} vs {}", i as i32 % w, i as i32 / w, hex(a[i]), hex(b[i])))
}

// ---------------------------------------------------------------------------
// (a)+(b): fill under T == fill of the pre-transformed path under identity, with the source moved to T^-1 . S

#[derive(Clone, Debug, Serialize, Deserialize)]
pub struct FillCase {
    pub w: i32,
    pub h: i32,
    pub init: Vec<u32>,
    pub xf: Xf,
    pub path: PathSpec,
    pub src: SrcSpec,
    pub opts: Opts,
    /// an extra transform of the source's own (user space -> the space the constructor placed the source in),
    /// set directly in the public `Source` variant: every source kind then has a non-trivial transform of its own
    #[serde(default)]
    pub own: Option<Xf>,
}

pub fn check_fill(c: &FillCase) -> CheckResult {
    let mut o = Outcome::new();
    o.fp = fp_of(c);
    let t = to_transform(&c.xf);
    let Some(ti) = t.inverse() else { return Err("HARNESS: singular transform in the invertible part".into()) };
    let path = c.path.build();
    let dopts = c.opts.build();
    let mut a = new_target(c.w, c.h, &c.init);
    a.set_transform(&t);
    let mut b = new_target(c.w, c.h, &c.init);
    let moved = path.clone().transform(&t);
    c.src.with(|s| {
        // the source as the caller holds it (with its own extra transform, if any) ...
        let own = match &c.own {
            Some(e) => moved_source(s, &to_transform(e)),
            None => s.clone(),
        };
        a.fill(&path, &own, &dopts);
        // ... and the same source moved to T^-1 . S for the draw under the identity
        b.fill(&moved, &moved_source(&own, &ti), &dopts);
    });
    // the same source drawn through mask(): the mask's position and bytes are in device space, the source it lets
    // through is still fixed in user space, so mask() under T equals mask() under the identity of the moved source
    {
        let (mw, mh) = ((c.w - 1).max(1), (c.h - 1).max(1));
        let mask = Mask { width: mw, height: mh, data: (0..mw * mh).map(|i| if i % 5 == 0 { (c.init[i as usize % c.init.len()] >> 8) as u8 } else { 255 }).collect() };
        let mut a2 = new_target(c.w, c.h, &c.init);
        a2.set_transform(&t);
        let mut b2 = new_target(c.w, c.h, &c.init);
        c.src.with(|s| {
            let own = match &c.own {
                Some(e) => moved_source(s, &to_transform(e)),
                None => s.clone(),
            };
            a2.mask(&own, 1, 0, &mask);
            b2.mask(&moved_source(&own, &ti), 1, 0, &mask);
        });
        if let Some(m) = diff(a2.get_data(), b2.get_data(), c.w) {
            return Err(format!("mask() of a source under transform {:?} differs from mask() of the source moved to T^-1 . S under the identity: {} [{}]", c.xf, m, c.src.kind()));
        }
    }
    if let Some(m) = diff(a.get_data(), b.get_data(), c.w) {
        return Err(format!(
            "fill under transform {:?} differs from filling Path::transform of the path under the identity (source moved to T^-1 . S): {} [{}]",
            c.xf,
            m,
            c.src.kind()
        ));
    }
    o.judged = a.get_data().len() as u64;
    let changed = a.get_data() != &c.init[..];
    o.nontrivial = changed && !matches!(classify_xf(&c.xf), "xf:identity" | "xf:int-translate");
    o.class(classify_xf(&c.xf));
    o.class(c.src.kind());
    o.class_if(c.path.has_curves(), "curves");
    o.class_if(changed && c.own.is_some() && !matches!(c.src, SrcSpec::Solid(..)) && !matches!(classify_xf(&c.xf), "xf:identity"), "source-with-own-transform-under-ctm");
    if let SrcSpec::Image { xf: ixf, .. } = &c.src {
        let m = ti.then(&to_transform(ixf));
        let not_transl = |x: &Xf| !(x[0] == 1.0 && x[1] == 0.0 && x[2] == 0.0 && x[3] == 1.0);
        o.class_if(m.m11 == 1.0 && m.m12 == 0.0 && m.m21 == 0.0 && m.m22 == 1.0 && m.m31.fract() == 0.0 && m.m32.fract() == 0.0 && not_transl(&c.xf) && not_transl(ixf), "image:linear-parts-cancel-to-integer-translation");
    }
    Ok(o)
}

fn fill_strategy(ctx: &Ctx) -> BoxedStrategy<FillCase> {
    let ctx = ctx.clone();
    (4i32..=16, 4i32..=16)
        .prop_flat_map(move |(w, h)| {
            let ext = w.max(h) as f32;
            let cancel = (0u8..6, prop::sample::select(vec![2.0f32, 4.0, 0.5, -1.0, -2.0]), 0u8..4, (-4i32..=4, -4i32..=4), (-6i32..=6, -6i32..=6));
            let own = prop_oneof![1 => Just(None), 1 => xf_invertible(3.0).prop_map(Some)];
            (Just((w, h)), init_pixels(w, h), xf_invertible(5.0), prop_oneof![poly_path(ext), curvy_path(ext)], any_src(&ctx, ext), opts_any(), cancel, own)
        })
        .prop_map(|((w, h), init, mut xf, path, mut src, opts, (sel, k, quarter, (tx, ty), (sx, sy)), mut own)| {
            // one image case in six: the linear part of the current transform is exactly undone by the image's own
            // transform (a "@2x image on a 2x display", or two equal quarter turns), with whole-number translations,
            // so that device-to-image space is a pure integer translation although neither matrix is one
            if sel == 0 {
                if let SrcSpec::Image { xf: ixf, .. } = &mut src {
                    let lin: [f32; 4] = match quarter {
                        0 => [k, 0.0, 0.0, k],
                        1 => [0.0, 1.0, -1.0, 0.0],
                        2 => [0.0, -k, k, 0.0],
                        _ => [k, 0.0, 0.0, k],
                    };
                    let m = if lin[0] != 0.0 { lin[0].abs() } else { lin[1].abs().max(lin[2].abs()) };
                    // translations that are whole multiples of the scale keep the inverse's translation integral
                    xf = [lin[0], lin[1], lin[2], lin[3], tx as f32 * m.max(1.0), ty as f32 * m.max(1.0)];
                    *ixf = [lin[0], lin[1], lin[2], lin[3], sx as f32, sy as f32];
                    own = None;
                }
            }
            FillCase { w, h, init, xf, path, src, opts, own }
        })
        .boxed()
}

// ---------------------------------------------------------------------------
// (c): stroking under a similarity T == stroking the transformed polyline with width (and dashes) scaled

#[derive(Clone, Debug, Serialize, Deserialize)]
pub struct StrokeCase {
    pub w: i32,
    pub h: i32,
    pub angle: f32,
    pub scale: f32,
    pub tx: f32,
    pub ty: f32,
    pub path: PathSpec,
    pub style: StyleSpec,
}

pub fn check_stroke(c: &StrokeCase) -> CheckResult {
    let mut o = Outcome::new();
    o.fp = fp_of(c);
    let r = (c.angle as f64).to_radians();
    let (cs, sn) = ((r.cos() * c.scale as f64) as f32, (r.sin() * c.scale as f64) as f32);
    let xf: Xf = [cs, sn, -sn, cs, c.tx, c.ty];
    let t = to_transform(&xf);
    // the true scale factor of the matrix as built (sqrt of the determinant)
    let s = (xf_det(&xf)).abs().sqrt() as f32;
    let white = Source::Solid(SolidSource { r: 255, g: 255, b: 255, a: 255 });
    let path = c.path.build();
    let style = c.style.build();
    let mut a = blank_target(c.w, c.h);
    a.set_transform(&t);
    a.stroke(&path, &white, &style, &DrawOptions::new());
    let mut b = blank_target(c.w, c.h);
    let mut style2 = style.clone();
    style2.width *= s;
    style2.dash_offset *= s;
    for d in style2.dash_array.iter_mut() {
        *d *= s;
    }
    b.stroke(&path.clone().transform(&t), &white, &style2, &DrawOptions::new());
    let (pa, pb) = (a.get_data(), b.get_data());
    // the two computations differ only by f32 rounding of positions (~1e-6 px): an edge may flip at most
    // a quarter-pixel sample now and then.  A width that does not scale shows up as whole bands of pixels.
    let mut worst = 0u32;
    let mut differing = 0;
    for i in 0..pa.len() {
        let d = (pa[i] >> 24).abs_diff(pb[i] >> 24);
        if d > 0 {
            differing += 1;
        }
        worst = worst.max(d);
    }
    // curved input: both sides flatten the same curve to within 0.1 device px (the tolerance is scaled by
    // the transform), so edges may disagree by ~0.2 px; a tolerance that is not scaled shows up as
    // disagreements of more than a pixel
    let curved = c.path.has_curves();
    // polylines: the outline vertices of the two sides differ by f32 rounding only, but the rasteriser
    // truncates vertices to the quarter-pixel grid, so a vertex sitting on a grid line can land one quarter
    // pixel apart; the edge then moves by at most 1/4 px, i.e. 4 of a pixel's 16 samples (64/255), along
    // its whole length.  (Found by the thorough tier: 12 pixels, worst 48/255.)
    if (curved && worst > 140) || (!curved && worst > 80) {
        let i = (0..pa.len()).max_by_key(|i| (pa[*i] >> 24).abs_diff(pb[*i] >> 24)).unwrap();
        return Err(format!(
            "stroke under the similarity (angle {}, scale {}, translate {},{}) differs from stroking the transformed path with width, dashes and offset scaled by {}: {} pixels differ, worst at ({},{}): alpha {} vs {} (line width must scale with the transform)",
            c.angle,
            c.scale,
            c.tx,
            c.ty,
            s,
            differing,
            i as i32 % c.w,
            i as i32 / c.w,
            pa[i] >> 24,
            pb[i] >> 24
        ));
    }
    o.judged = pa.len() as u64;
    o.undecided = differing as u64;
    o.nontrivial = pa.iter().any(|p| *p != 0) && (c.scale - 1.0).abs() > 0.2;
    o.class_if(!c.style.dash.is_empty(), "dashed");
    o.class_if(curved, "curved-input");
    o.class_if(c.scale > 1.5, "scale>1.5");
    o.class_if(c.scale < 0.67, "scale<0.67");
    Ok(o)
}

fn stroke_strategy() -> BoxedStrategy<StrokeCase> {
    (16i32..=32, 16i32..=32)
        .prop_flat_map(|(w, h)| {
            let ext = w.max(h) as f32;
            // user-space polyline with segments of decent length
            let poly = prop::collection::vec((0.0f32..ext, 0.0f32..ext), 2..=5).prop_map(|pts| PathSpec { ops: pts.iter().enumerate().map(|(i, p)| if i == 0 { POp::M(p.0, p.1) } else { POp::L(p.0, p.1) }).collect(), evenodd: false });
            // small, strongly curved user-space paths that are magnified by the transform
            let c = || 0.0f32..8.0;
            let curvy = (c(), c(), prop::collection::vec((c(), c(), c(), c()), 1..=3)).prop_map(|(x, y, qs)| {
                let mut ops = vec![POp::M(x, y)];
                for (a, b, x, y) in qs {
                    ops.push(POp::Q(a, b, x, y));
                }
                PathSpec { ops, evenodd: false }
            });
            let path = prop_oneof![3 => poly.boxed(), 2 => curvy.boxed()];
            (Just((w, h)), 0.0f32..360.0, prop_oneof![0.3f32..3.0, Just(1.0f32), Just(2.0f32)], -4.0f32..8.0, -4.0f32..8.0, path, style_any())
        })
        .prop_map(|((w, h), angle, scale, tx, ty, path, style)| StrokeCase { w, h, angle, scale, tx, ty, path, style })
        .boxed()
}

// ---------------------------------------------------------------------------
// (d) singular transforms draw nothing; (e) device-space calls ignore T; (f) pop_layer / clear restore T

#[derive(Clone, Debug, Serialize, Deserialize)]
pub struct SingularCase {
    pub w: i32,
    pub h: i32,
    pub init: Vec<u32>,
    pub xf: Xf,
    pub draw: Op,
}

pub fn check_singular(c: &SingularCase) -> CheckResult {
    let mut o = Outcome::new();
    o.fp = fp_of(c);
    let mut dt = new_target(c.w, c.h, &c.init);
    dt.set_transform(&to_transform(&c.xf));
    apply(&mut dt, &c.draw);
    if let Some(m) = diff(dt.get_data(), &c.init, c.w) {
        return Err(format!("{} under the non-invertible transform {:?} changed pixels: {} (a non-invertible transform draws nothing)", c.draw.kind(), c.xf, m));
    }
    if from_transform(dt.get_transform()) != c.xf {
        return Err("the draw changed the current transform".into());
    }
    o.judged = c.init.len() as u64;
    o.nontrivial = true;
    o.class(c.draw.kind());
    Ok(o)
}

fn singular_strategy(ctx: &Ctx) -> BoxedStrategy<SingularCase> {
    let ctx = ctx.clone();
    (3i32..=12, 3i32..=12)
        .prop_flat_map(move |(w, h)| {
            let d = Domain::free(w, h);
            // every drawing call except mask() (device-space geometry: either reading accepted) and clear() (documented to ignore T)
            let draw = draw_op(&ctx, &d).prop_filter("not mask/clear", |op| !matches!(op, Op::Mask(..) | Op::Clear(_)));
            (Just((w, h)), init_pixels(w, h), xf_singular(), draw)
        })
        .prop_map(|((w, h), init, xf, draw)| SingularCase { w, h, init, xf, draw })
        .boxed()
}

#[derive(Clone, Debug, Serialize, Deserialize)]
pub struct DeviceCase {
    pub w: i32,
    pub h: i32,
    pub init: Vec<u32>,
    pub xf: Xf,
    /// device-space ops: PushClipRect + a draw, Mask with a solid source, CopySurface, BlendSurface*
    pub ops: Vec<Op>,
}

pub fn check_device(c: &DeviceCase) -> CheckResult {
    let mut o = Outcome::new();
    o.fp = fp_of(c);
    let run = |x: &Xf| {
        let mut dt = new_target(c.w, c.h, &c.init);
        dt.set_transform(&to_transform(x));
        for op in &c.ops {
            // drawing that depends on T (the probe fill) is issued under the identity in both runs
            if let Op::FillRect(..) | Op::Clear(_) = op {
                let keep = *dt.get_transform();
                dt.set_transform(&Transform::identity());
                apply(&mut dt, op);
                dt.set_transform(&keep);
            } else {
                apply(&mut dt, op);
            }
        }
        dt.get_data().to_vec()
    };
    let (a, b) = (run(&IDENT), run(&c.xf));
    if let Some(m) = diff(&a, &b, c.w) {
        return Err(format!("device-space calls {:?} give different pixels under transform {:?} than under the identity: {}", c.ops.iter().map(|o| o.kind()).collect::<Vec<_>>(), c.xf, m));
    }
    o.judged = a.len() as u64;
    o.nontrivial = a != c.init && !matches!(classify_xf(&c.xf), "xf:identity");
    for op in &c.ops {
        o.class(op.kind());
    }
    o.class(classify_xf(&c.xf));
    Ok(o)
}

fn device_strategy() -> BoxedStrategy<DeviceCase> {
    (3i32..=12, 3i32..=12)
        .prop_flat_map(|(w, h)| {
            let surf = (1i32..=6, 1i32..=6).prop_flat_map(|(sw, sh)| pixels((sw * sh) as usize, 0).prop_map(move |data| SurfSpec { w: sw, h: sh, data }));
            let r4 = (-2i32..=7, -2i32..=7, -2i32..=7, -2i32..=7).prop_map(|(a, b, c, d)| [a.min(c), b.min(d), a.max(c), b.max(d)]);
            let pt = (-3..=w, -3..=h).prop_map(|(x, y)| [x, y]);
            let clip_probe = (int_rect(w, h), px_premul(), blend_biased()).prop_map(move |((a, b, c, d), col, bl)| {
                vec![Op::PushClipRect(a, b, c, d), Op::FillRect(-1.0, -1.0, w as f32 + 2.0, h as f32 + 2.0, SrcSpec::Solid(col), Opts { blend: bl, alpha: Fl(1.0), aa: true }), Op::PopClip]
            });
            let ops = prop_oneof![
                2 => clip_probe,
                2 => (px_premul(), -3..=w, -3..=h, mask_spec(w + 2, h + 2)).prop_map(|(c, x, y, m)| vec![Op::Mask(SrcSpec::Solid(c), x, y, m)]),
                1 => (surf.clone(), r4.clone(), pt.clone()).prop_map(|(s, r, p)| vec![Op::CopySurface(s, r, p)]),
                1 => (surf.clone(), r4.clone(), pt.clone(), blend_any()).prop_map(|(s, r, p, b)| vec![Op::BlendSurface(s, r, p, b)]),
                1 => (surf, r4, pt, 0.0f32..=1.0).prop_map(|(s, r, p, a)| vec![Op::BlendSurfaceAlpha(s, r, p, Fl(a))]),
            ];
            (Just((w, h)), init_pixels(w, h), prop_oneof![4 => xf_invertible(5.0), 1 => xf_singular()], ops)
        })
        .prop_map(|((w, h), init, xf, ops)| {
            // mask() under a singular transform: either reading is accepted, so keep T invertible there
            let xf = if xf_det(&xf) == 0.0 && ops.iter().any(|o| matches!(o, Op::Mask(..))) { [2.0, 0.0, 0.0, 0.5, 1.0, 1.0] } else { xf };
            DeviceCase { w, h, init, xf, ops }
        })
        .boxed()
}

#[derive(Clone, Debug, Serialize, Deserialize)]
pub struct RestoreCase {
    pub w: i32,
    pub h: i32,
    pub init: Vec<u32>,
    pub xf: Xf,
    pub clip: Option<Op>,
    /// 0: clear, 1: push_layer + draw + pop_layer
    pub kind: u8,
    pub color: u32,
    pub inner: Op,
    pub after: Op,
    /// a transform set while the layer is open: pop_layer leaves that one in force, not the one at push time
    #[serde(default)]
    pub inner_xf: Option<Xf>,
}

pub fn check_restore(c: &RestoreCase) -> CheckResult {
    let mut o = Outcome::new();
    o.fp = fp_of(c);
    let mut dt = new_target(c.w, c.h, &c.init);
    let t = to_transform(&c.xf);
    dt.set_transform(&t);
    if let Some(cl) = &c.clip {
        apply(&mut dt, cl);
    }
    if c.kind == 0 {
        dt.clear(solid_of(c.color));
    } else {
        dt.push_layer(0.75);
        if let Some(x2) = &c.inner_xf {
            dt.set_transform(&to_transform(x2));
        }
        apply(&mut dt, &c.inner);
        dt.pop_layer();
    }
    // the transform pop_layer finds is the one set last, inside the layer or before it
    let found = if c.kind == 0 { c.xf } else { c.inner_xf.unwrap_or(c.xf) };
    let t = to_transform(&found);
    let now = from_transform(dt.get_transform());
    if now.iter().zip(&found).any(|(a, b)| a.to_bits() != b.to_bits()) {
        return Err(format!("{} left the transform as {:?}, it was {:?}", if c.kind == 0 { "clear()" } else { "pop_layer()" }, now, found));
    }
    // a draw afterwards equals the draw on a target where T was re-set explicitly
    let snapshot = dt.get_data().to_vec();
    apply(&mut dt, &c.after);
    let mut fresh = DrawTarget::from_vec(c.w, c.h, snapshot);
    fresh.set_transform(&to_transform(&c.xf));
    if let Some(cl) = &c.clip {
        apply(&mut fresh, cl);
    }
    fresh.set_transform(&t);
    apply(&mut fresh, &c.after);
    if let Some(m) = diff(dt.get_data(), fresh.get_data(), c.w) {
        return Err(format!("a {} after {} differs from the same draw on a target whose transform was set explicitly: {}", c.after.kind(), if c.kind == 0 { "clear()" } else { "pop_layer()" }, m));
    }
    o.judged = c.init.len() as u64;
    o.nontrivial = !matches!(classify_xf(&c.xf), "xf:identity");
    o.class(if c.kind == 0 { "clear" } else { "pop_layer" });
    o.class_if(c.clip.is_some(), "clipped");
    o.class_if(c.kind != 0 && c.inner_xf.is_some(), "transform-changed-inside-the-layer");
    Ok(o)
}

fn restore_strategy(ctx: &Ctx) -> BoxedStrategy<RestoreCase> {
    let ctx = ctx.clone();
    (3i32..=12, 3i32..=12)
        .prop_flat_map(move |(w, h)| {
            let mut d = Domain::free(w, h);
            d.strokes = false;
            // paths in this part always start with move_to (the cursor carried between paths is C10's subject)
            (Just((w, h)), init_pixels(w, h), prop_oneof![4 => xf_invertible(5.0), 1 => xf_singular()], prop::option::of(int_rect(w, h).prop_map(|(a, b, c, dd)| Op::PushClipRect(a, b, c, dd))), 0u8..2, px_premul(), draw_op(&ctx, &d), draw_op(&ctx, &d), prop::option::of(xf_invertible(5.0)))
        })
        .prop_map(|((w, h), init, xf, clip, kind, color, inner, after, inner_xf)| RestoreCase { w, h, init, xf, clip, kind, color, inner, after, inner_xf })
        .boxed()
}

// ---------------------------------------------------------------------------
// fill_rect and draw_image_* under T: the same user-space rectangle as a path

#[derive(Clone, Debug, Serialize, Deserialize)]
pub struct RectCase {
    pub w: i32,
    pub h: i32,
    pub init: Vec<u32>,
    pub xf: Xf,
    pub rect: [f32; 4],
    pub src: SrcSpec,
    pub opts: Opts,
    /// draw_image_at of this image at rect's origin instead of fill_rect
    pub image: Option<ImageSpec>,
}

pub fn check_rect(c: &RectCase) -> CheckResult {
    let mut o = Outcome::new();
    o.fp = fp_of(c);
    let t = to_transform(&c.xf);
    let dopts = c.opts.build();
    let [x, y, rw, rh] = c.rect;
    let mut a = new_target(c.w, c.h, &c.init);
    a.set_transform(&t);
    let mut b = new_target(c.w, c.h, &c.init);
    b.set_transform(&t);
    match &c.image {
        None => {
            // fill_rect(x, y, w, h) is the fill of the rectangle path in the same user space, whatever T is
            c.src.with(|s| a.fill_rect(x, y, rw, rh, s, &dopts));
            let mut pb = PathBuilder::new();
            pb.rect(x, y, rw, rh);
            c.src.with(|s| b.fill(&pb.finish(), s, &dopts));
            if let Some(m) = diff(a.get_data(), b.get_data(), c.w) {
                return Err(format!("fill_rect({}, {}, {}, {}) under transform {:?} differs from filling PathBuilder::rect of it under the same transform: {} [{}]", x, y, rw, rh, c.xf, m, c.src.kind()));
            }
            o.class("fill_rect");
        }
        Some(img) => {
            // draw_image_at(x, y) is the fill of the image's rectangle with the image translated to (x, y), in user space
            let image = Image { width: img.w, height: img.h, data: &img.data };
            a.draw_image_at(x, y, &image, &dopts);
            let mut pb = PathBuilder::new();
            pb.rect(x, y, img.w as f32, img.h as f32);
            let src = Source::Image(image, ExtendMode::Pad, FilterMode::Bilinear, Transform::translation(-x, -y));
            b.fill(&pb.finish(), &src, &dopts);
            if let Some(m) = diff(a.get_data(), b.get_data(), c.w) {
                return Err(format!("draw_image_at({}, {}) under transform {:?} differs from filling the image's rectangle with the translated image source under the same transform: {}", x, y, c.xf, m));
            }
            o.class("draw_image_at");
        }
    }
    o.judged = a.get_data().len() as u64;
    let integer = x.fract() == 0.0 && y.fract() == 0.0 && rw.fract() == 0.0 && rh.fract() == 0.0;
    o.class_if(integer, "integer-rect");
    let m = &c.xf;
    let pure_translation = m[0] == 1.0 && m[1] == 0.0 && m[2] == 0.0 && m[3] == 1.0;
    o.class_if(pure_translation && (m[4] == 0.0) != (m[5] == 0.0), "translation-along-one-axis");
    o.class(classify_xf(&c.xf));
    o.nontrivial = a.get_data() != &c.init[..] && !matches!(classify_xf(&c.xf), "xf:identity");
    Ok(o)
}

fn rect_strategy(ctx: &Ctx) -> BoxedStrategy<RectCase> {
    let ctx = ctx.clone();
    (4i32..=16, 4i32..=16)
        .prop_flat_map(move |(w, h)| {
            let ext = w.max(h) as f32;
            let tr = || prop_oneof![2 => Just(0.0f32), 2 => (-6i32..=6).prop_map(|v| v as f32), 1 => -6.0f32..6.0];
            // translations (each axis zero, whole or fractional on its own) are half of the transforms here:
            // they are what an "is the transform trivial?" shortcut in fill_rect would look at
            let xf = prop_oneof![4 => (tr(), tr()).prop_map(|(x, y)| [1.0f32, 0., 0., 1., x, y]), 4 => xf_invertible(5.0)];
            let c = move || prop_oneof![2 => (-3i32..=16).prop_map(|v| v as f32), 1 => -3.0f32..ext];
            let sz = move || prop_oneof![2 => (0i32..=12).prop_map(|v| v as f32), 1 => 0.0f32..ext];
            (Just((w, h)), init_pixels(w, h), xf, (c(), c(), sz(), sz()), any_src(&ctx, ext), opts_any(), prop::option::weighted(0.3, image_spec(5, 5)))
        })
        .prop_map(|((w, h), init, xf, (x, y, rw, rh), src, opts, image)| RectCase { w, h, init, xf, rect: [x, y, rw, rh], src, opts, image })
        .boxed()
}

pub fn property(ctx: &Ctx) -> Property {
    let (c1, c2, c3, c4, c5) = (ctx.clone(), ctx.clone(), ctx.clone(), ctx.clone(), ctx.clone());
    let drift_open = ctx.excluded(super::c12::DRIFT_KEY);
    Property {
        id: "C11",
        rule: "part fill: random polygon/curve paths, every source kind, 28 modes, all invertible transform classes: fill under T must equal, bit for bit, filling Path::transform(T) of the path under the identity with the source's transform preceded by T^-1 (sources live in user space), and the same for the source drawn through mask() at a fixed device position; in half of the cases the source also carries an extra transform of its own, set directly in the public Source variant, so that every source kind (two-circle included) composes a non-trivial own transform with the CTM. part stroke: polylines stroked (all caps/joins/dashes) under a similarity must match stroking the transformed polyline with width, dashes and offset scaled (line width scales with T) up to one quarter-sample flip per edge. part image-under-near-identity-ctm: C13's images on 600..2048 px long surfaces under a current transform within 1e-3 of the identity (zoom 1.0004, half a milliradian of rotation, a slight shear), judged by C13's f64 oracle (a transform treated as 'close enough to a translation' drifts by whole texels there). part singular: every drawing call except mask/clear under non-invertible T changes nothing. part device: push_clip_rect (probed by an identity-transform fill), mask geometry with solid sources, copy_surface, blend_surface, blend_surface_with_alpha give identical pixels under any T. part restore: get_transform() is bit-equal after clear() and pop_layer (with/without clip; in half of the layer cases the transform is changed while the layer is open, and pop_layer must leave that one) and a following draw equals the draw with T re-set. part rect: fill_rect (integer and fractional rectangles) and draw_image_at under any T, half of them translations with each axis zero / whole / fractional on its own, must equal, bit for bit, filling PathBuilder::rect of the same rectangle (with the translated image source) under the same T. parts gradient-under-ctm / image-under-ctm: C12's gradient cases and C13's image cases with a non-identity current transform (incl. mirrored, sheared and zoomed user spaces), colour judged absolutely at T^-1 of the pixel centre by those properties' oracles. Non-trivial: T not identity/integer translation (fill), scale away from 1 (stroke), non-identity T (device/restore); distinct by hash of the case.",
        assumptions: vec![
            "mask() under a singular transform is not judged (the statement allows both readings)",
            "stroke part: the two sides differ by f32 rounding of positions, which the quarter-pixel vertex truncation can amplify to 1/4 px: alpha differences up to 80/255 (polylines) resp. 140/255 (curves, 0.2 px flattening difference) per pixel are accepted; a width that does not scale differs by 255 on whole bands",
            "parts gradient-under-ctm and image-under-ctm reuse C12's and C13's generators and oracles (their assumptions apply)",
        ],
        parts: vec![
            part("fill", 80_000, 1_500_000, move || fill_strategy(&c1), check_fill),
            part("stroke", 16_000, 300_000, stroke_strategy, check_stroke),
            part("singular", 20_000, 300_000, move || singular_strategy(&c2), check_singular),
            part("device", 30_000, 500_000, device_strategy, check_device),
            part("restore", 30_000, 400_000, move || restore_strategy(&c3), check_restore),
            // "a pixel's colour is the source evaluated at T^-1 of the pixel centre": part fill compares two routes
            // that hand the library the same device-to-source matrix, so a slip in how that matrix is *used* hides
            // from it; these two parts judge the colour absolutely, with C12's gradient oracle and C13's image
            // oracle, on cases whose current transform is not the identity
            part("rect", 40_000, 600_000, move || rect_strategy(&c5), check_rect),
            part("gradient-under-ctm", 12_000, 200_000, move || super::c12::strategy(&c4).prop_filter("non-identity CTM", |c| c.ctm != IDENT).boxed(), move |k| super::c12::check_with(k, drift_open)),
            part("image-under-ctm", 20_000, 300_000, || super::c13::strategy().prop_filter("non-identity CTM", |c| c.ctm != IDENT).boxed(), super::c13::check),
            part("image-under-near-identity-ctm", 1_500, 30_000, || super::c13::near_identity_strategy().prop_filter("non-identity CTM", |c| c.ctm != IDENT).boxed(), super::c13::check),
        ],
        min_class_fraction: vec![("fill", "src:image", 0.1), ("fill", "image:linear-parts-cancel-to-integer-translation", 0.01), ("fill", "xf:general", 0.05), ("fill", "source-with-own-transform-under-ctm", 0.05), ("fill", "xf:rotation", 0.05), ("stroke", "dashed", 0.1), ("stroke", "curved-input", 0.25), ("restore", "pop_layer", 0.3), ("restore", "transform-changed-inside-the-layer", 0.15), ("rect", "translation-along-one-axis", 0.1), ("rect", "integer-rect", 0.1)],
        panic_is_violation: false,
    }
}
