//! C06 — a layer is an isolated group composited once with its opacity and blend mode.

use crate::compose::*;
use crate::gen::*;
use crate::runner::*;
use crate::scene::*;
use crate::tree::*;
use proptest::prelude::*;
use raqote::*;
use serde::{Deserialize, Serialize};

#[derive(Clone, Debug, Serialize, Deserialize)]
pub struct Case {
    pub w: i32,
    pub h: i32,
    pub init: Vec<u32>,
    pub nodes: Vec<Node>,
}

/// state needed to re-establish the context of a group on a separate surface
#[derive(Clone)]
struct Context {
    /// clip pushes live at this point, each with the transform it was pushed under
    clips: Vec<(Op, Xf)>,
    xf: Xf,
}

struct Walk<'a> {
    w: i32,
    h: i32,
    o: &'a mut Outcome,
    depth: usize,
}

/// Apply `nodes` to `dt` (whose visible buffer is a plain surface: no layer is open on it at this
/// level), judging every Layer node met at this level against the isolated-group reference.
fn walk(nodes: &[Node], dt: &mut DrawTarget, cx: &mut Context, model_clip: &mut ClipCtx, clip_exact: &mut Vec<bool>, wk: &mut Walk) -> Result<(), String> {
    let (w, h) = (wk.w, wk.h);
    for node in nodes {
        match node {
            Node::Op(Op::SetXf(x)) => {
                dt.set_transform(&to_transform(x));
                cx.xf = *x;
            }
            Node::Op(op) => apply(dt, op),
            Node::Clip(push, inner) => {
                apply(dt, push);
                cx.clips.push((push.clone(), cx.xf));
                let ok = model_clip.push(push, &cx.xf, w, h);
                if !ok {
                    model_clip.entries.push(ClipEntry::Path(vec![vec![0, 255]; (w * h) as usize]));
                }
                clip_exact.push(ok);
                walk(inner, dt, cx, model_clip, clip_exact, wk)?;
                dt.pop_clip();
                cx.clips.pop();
                model_clip.pop();
                clip_exact.pop();
            }
            Node::Layer(opacity, blend, inner) => {
                let before = dt.get_data().to_vec();
                let t_before = *dt.get_transform();
                // --- the real thing
                dt.push_layer_with_blend(opacity.0, BLEND_MODES[*blend as usize]);
                let mid = dt.get_data().to_vec();
                if mid != before {
                    return Err("push_layer changed the visible surface".into());
                }
                let mut scratch_ctx = cx.clone();
                let mut scratch_clip = model_clip.clone();
                let mut scratch_exact = clip_exact.clone();
                // drawing into the group: apply without judging at this level (the base surface must not change)
                apply_inner(inner, dt, &mut scratch_ctx);
                let during = dt.get_data().to_vec();
                if during != before {
                    let i = (0..before.len()).find(|i| during[*i] != before[*i]).unwrap();
                    return Err(format!(
                        "drawing inside an open layer changed the base surface: pixel ({},{}) {} -> {} (all drawing calls, including clear, must target the innermost open layer)",
                        i as i32 % w,
                        i as i32 / w,
                        hex(before[i]),
                        hex(during[i])
                    ));
                }
                dt.pop_layer();
                let after = dt.get_data().to_vec();
                // transform changes made inside the group persist (set_transform is not scoped); push/pop themselves must not touch it
                let t_expected = to_transform(&scratch_ctx.xf);
                if from_transform(dt.get_transform()) != from_transform(&t_expected) {
                    return Err(format!("pop_layer changed the current transform: {:?} expected {:?} (before the group {:?})", dt.get_transform(), t_expected, t_before));
                }
                // --- the reference: the same inner ops on a separate, initially transparent surface with the
                // same transform and clip stack (nested layers inside are judged recursively there)
                let mut g = DrawTarget::new(w, h);
                for (push, x) in &cx.clips {
                    g.set_transform(&to_transform(x));
                    apply(&mut g, push);
                }
                g.set_transform(&to_transform(&cx.xf));
                let mut gcx = cx.clone();
                wk.depth += 1;
                walk(inner, &mut g, &mut gcx, &mut scratch_clip, &mut scratch_exact, wk)?;
                wk.depth -= 1;
                let gp = g.get_data().to_vec();
                cx.xf = scratch_ctx.xf;
                // --- judge the single composite
                let exact = clip_exact.iter().all(|b| *b);
                let cs = model_clip.combined(w, h);
                let ob = (opacity.0 * 255.0 + 0.5) as u8 as u32;
                let tol = TOL + model_clip.n_paths() as f64;
                for i in 0..before.len() {
                    let (x, y) = (i as i32 % w, i as i32 / w);
                    if !model_clip.in_rects(x, y) {
                        if after[i] != before[i] {
                            return Err(format!("pop_layer changed pixel ({},{}) outside the clip rectangle: {} -> {}", x, y, hex(before[i]), hex(after[i])));
                        }
                        continue;
                    }
                    if !exact {
                        continue;
                    }
                    if let Err(e) = judge_pixel(*blend, gp[i], before[i], &[ob], &cs[i], after[i], tol) {
                        return Err(format!(
                            "layer(opacity {}, {}) at nesting depth {}: pixel ({},{}): group rendered in isolation holds {}; {}",
                            opacity.0,
                            blend_name(*blend),
                            wk.depth,
                            x,
                            y,
                            hex(gp[i]),
                            e
                        ));
                    }
                    wk.o.judged += 1;
                }
                let o = &mut *wk.o;
                let origin_nonzero = cx.clips.iter().any(|(c, _)| matches!(c, Op::PushClipRect(a, b, _, _) if *a > 0 || *b > 0));
                let has_clear = flat(inner).iter().any(|op| matches!(op, Op::Clear(_)));
                if ob != 255 || *blend != SRC_OVER || wk.depth >= 1 || origin_nonzero || has_clear {
                    o.nontrivial = true;
                }
                o.class_if(ob != 255 && ob != 0, "opacity-partial");
                o.class_if(ob == 0, "opacity-zero");
                o.class_if(*blend != SRC_OVER, "layer-blend-non-srcover");
                o.class_if(wk.depth >= 1, "nested-layer");
                o.class_if(h > 1024 || w > 1024, "layer-on-a-surface-beyond-1024");
                o.class_if(origin_nonzero, "layer-origin-nonzero");
                o.class_if(has_clear, "clear-inside-layer");
                o.class_if(!cx.clips.is_empty(), "layer-under-clip");
                o.class_if(model_clip.n_paths() > 0, "layer-under-clip-path");
                let empty = !(0..w * h).any(|i| model_clip.in_rects(i % w, i / w));
                o.class_if(empty, "layer-under-empty-clip");
                o.class_if(count_draws(inner) >= 2, "multi-draw-group");
                o.class_if(xf_det(&scratch_ctx.xf) == 0.0 && gp.iter().any(|p| *p != 0), "popped-under-singular-transform");
            }
        }
    }
    Ok(())
}

/// apply nodes (with nested groups) without judging; tracks transform changes
fn apply_inner(nodes: &[Node], dt: &mut DrawTarget, cx: &mut Context) {
    for op in flat(nodes) {
        if let Op::SetXf(x) = &op {
            cx.xf = *x;
        }
        apply(dt, &op);
    }
}

pub fn check(c: &Case) -> CheckResult {
    let mut o = Outcome::new();
    o.fp = fp_of(c);
    let mut dt = new_target(c.w, c.h, &c.init);
    let mut cx = Context { clips: vec![], xf: IDENT };
    let mut mc = ClipCtx::default();
    let mut ex = vec![];
    let mut wk = Walk { w: c.w, h: c.h, o: &mut o, depth: 0 };
    walk(&c.nodes, &mut dt, &mut cx, &mut mc, &mut ex, &mut wk)?;
    Ok(o)
}

pub fn strategy(ctx: &Ctx) -> BoxedStrategy<Case> {
    let ctx = ctx.clone();
    prop_oneof![48 => (2i32..=10, 2i32..=10), 2 => (257i32..=300, 2i32..=3), 2 => (2i32..=3, 257i32..=300), 1 => prop_oneof![(2i32..=3, prop::sample::select(vec![1024i32, 1025, 1030, 1100, 2049, 2056])), (prop::sample::select(vec![1024i32, 1025, 2049, 2056]), 2i32..=2)]]
        .prop_flat_map(move |(w, h)| {
            let mut d = Domain::exact(w, h);
            d.layers = true;
            d.max_depth = 4;
            d.max_nodes = 3;
            let dd = d.clone();
            let ctx2 = ctx.clone();
            // always at least one layer group at top level, possibly under a clip
            let inner = tree(&ctx, &d);
            let group = (alpha_f(), blend_biased(), inner).prop_map(|(o, b, k)| Node::Layer(Fl(o), b, k));
            // (one clip in eight is a rectangle with no area on the surface although it is not empty itself: beside,
            // above or below the surface in one axis, overlapping it in the other; the layer under it is empty)
            let beside = (0i32..4, 1i32..=6, 1i32..=6, -2i32..=4).prop_map(move |(side, d, l, o)| match side {
                0 => Op::PushClipRect(w + d, o, w + d + l, o + l),
                1 => Op::PushClipRect(-d - l, o, -d, o + l),
                2 => Op::PushClipRect(o, h + d, o + l, h + d + l),
                _ => Op::PushClipRect(o, -d - l, o + l, -d),
            });
            let clipped_group = (prop_oneof![7 => clip_push(&dd), 1 => beside.boxed()], group.clone()).prop_map(|(c, g)| Node::Clip(c, vec![g]));
            let pre = prop::collection::vec(draw_op(&ctx2, &dd).prop_map(Node::Op), 0..=1);
            (Just((w, h)), init_pixels(w, h), pre, prop_oneof![1 => group.boxed(), 1 => clipped_group.boxed()], tree(&ctx2, &dd), prop::option::weighted(0.1, xf_singular()))
        })
        .prop_map(|((w, h), init, pre, mut g, post, sing)| {
            let mut nodes = pre;
            // one group in ten is popped while a non-invertible transform is in force (set as the last call inside
            // the group): the group must still be composited, pop_layer works in device space
            if let Some(sx) = sing {
                fn last_in_group(n: &mut Node, sx: Xf) {
                    match n {
                        Node::Layer(_, _, kids) => kids.push(Node::Op(Op::SetXf(sx))),
                        Node::Clip(_, kids) => {
                            if let Some(k) = kids.last_mut() {
                                last_in_group(k, sx)
                            }
                        }
                        _ => {}
                    }
                }
                last_in_group(&mut g, sx);
                nodes.push(g);
                nodes.push(Node::Op(Op::SetXf(IDENT)));
            } else {
                nodes.push(g);
            }
            // keep the tail short: one more node exercises "state unchanged by push/pop"
            nodes.extend(post.into_iter().take(1));
            Case { w, h, init, nodes }
        })
        .boxed()
}


// ---------------------------------------------------------------------------
// part interleaved: a clip pushed before the layer is popped while the layer is still open

#[derive(Clone, Debug, Serialize, Deserialize)]
pub struct InterleavedCase {
    pub w: i32,
    pub h: i32,
    pub init: Vec<u32>,
    /// the clip rectangle the layer is pushed under (inside the surface, not at the origin)
    pub rect: (i32, i32, i32, i32),
    pub opacity: Fl,
    pub blend: u8,
    pub xf: Xf,
    pub first: Op,
    pub second: Op,
    /// the second draw happens inside a further layer pushed after the clip was popped
    pub nested: Option<(Fl, u8)>,
    /// false: the clip is pushed before the layer and popped while the layer is open (see check_interleaved);
    /// true: the clip is pushed *inside* the layer and popped only after pop_layer
    #[serde(default)]
    pub clip_inside: bool,
}

/// The statement leaves open what a draw *outside* the rectangle means once the clip the layer was pushed under
/// has been popped (the isolated surface has no extent in the statement; the library's layer covers the clip
/// bounds at push time). Inside the rectangle there is no such freedom: the draw made after the pop is the same
/// there whether or not the rectangle still clips it (C05: inside a rectangular clip the result equals the
/// unclipped drawing exactly), so popping the clip before or after that draw must give bit-identical pixels
/// inside the rectangle.
pub fn check_interleaved(c: &InterleavedCase) -> CheckResult {
    if c.clip_inside {
        return check_clip_inside(c);
    }
    let mut o = Outcome::new();
    o.fp = fp_of(c);
    let (x0, y0, x1, y1) = c.rect;
    let run = |pop_first: bool| -> Vec<u32> {
        let mut dt = new_target(c.w, c.h, &c.init);
        dt.push_clip_rect(irect(x0, y0, x1, y1));
        dt.push_layer_with_blend(c.opacity.0, BLEND_MODES[c.blend as usize]);
        dt.set_transform(&to_transform(&c.xf));
        apply(&mut dt, &c.first);
        if pop_first {
            dt.pop_clip();
        }
        if let Some((op, bl)) = &c.nested {
            dt.push_layer_with_blend(op.0, BLEND_MODES[*bl as usize]);
        }
        apply(&mut dt, &c.second);
        if c.nested.is_some() {
            dt.pop_layer();
        }
        if !pop_first {
            dt.pop_clip();
        }
        dt.pop_layer();
        dt.get_data().to_vec()
    };
    let a = run(true);
    let b = run(false);
    let mut differs_from_init = false;
    for y in y0.max(0)..y1.min(c.h) {
        for x in x0.max(0)..x1.min(c.w) {
            let i = (y * c.w + x) as usize;
            o.judged += 1;
            differs_from_init |= a[i] != c.init[i];
            if a[i] != b[i] {
                return Err(format!(
                    "clip rect ({},{})-({},{}) pushed, layer pushed, {}, then {}{}: pixel ({},{}) inside the rectangle is {} when the clip is popped before the second draw and {} when it is popped after it (the draw is the same inside the rectangle either way)",
                    x0,
                    y0,
                    x1,
                    y1,
                    c.first.kind(),
                    c.second.kind(),
                    if c.nested.is_some() { " inside a nested layer" } else { "" },
                    x,
                    y,
                    hex(a[i]),
                    hex(b[i])
                ));
            }
        }
    }
    // did the second draw reach beyond the rectangle? (probe: the same draw alone on a blank surface)
    let mut probe = DrawTarget::new(c.w, c.h);
    probe.set_transform(&to_transform(&c.xf));
    if let Some(wop) = whitened_for_probe(&c.second) {
        apply(&mut probe, &wop);
    }
    let beyond = (0..c.w * c.h).any(|i| {
        let (x, y) = (i % c.w, i / c.w);
        probe.get_data()[i as usize] != 0 && !(x >= x0 && x < x1 && y >= y0 && y < y1)
    });
    // Outside the rectangle the statement leaves one thing open (whether what the second draw put there belongs
    // to the group) but not this: where *no* draw reached, the group is transparent, and compositing a transparent
    // pixel with a blend mode that keeps the destination under a transparent source changes nothing. (The first
    // draw was clipped to the rectangle; the probe shows where the second one lands.)
    let erasing = |b: u8| matches!(b, 1 | 2 | 5 | 6 | 7 | 10);
    if !erasing(c.blend) && !c.nested.map_or(false, |(_, b)| erasing(b)) && !matches!(c.second, Op::Clear(_)) {
        for i in 0..(c.w * c.h) as usize {
            let (x, y) = (i as i32 % c.w, i as i32 / c.w);
            if x >= x0 && x < x1 && y >= y0 && y < y1 {
                continue;
            }
            if probe.get_data()[i] == 0 {
                o.judged += 1;
                if a[i] != c.init[i] {
                    return Err(format!(
                        "clip rect ({},{})-({},{}) pushed, layer({}) pushed, {}, clip popped, {}, layer popped: pixel ({},{}) outside the rectangle, which no draw reached, changed from {} to {}",
                        x0,
                        y0,
                        x1,
                        y1,
                        blend_name(c.blend),
                        c.first.kind(),
                        c.second.kind(),
                        x,
                        y,
                        hex(c.init[i]),
                        hex(a[i])
                    ));
                }
            }
        }
        o.class("untouched-outside-judged");
    }
    o.nontrivial = differs_from_init && beyond;
    o.class_if(beyond, "second-draw-reaches-beyond-the-layer");
    o.class_if(c.nested.is_some(), "second-draw-in-nested-layer");
    o.class(c.second.kind());
    Ok(o)
}


/// The clip stack is unchanged by push_layer / pop_layer: a clip pushed while the layer is open is still in force
/// after pop_layer, until its own pop_clip. Pushing the same clip rectangle just before the layer instead of just
/// after it clips the same draws to the same rectangle, and the layer is composited through it either way, so
/// the two histories give bit-identical pixels everywhere.
fn check_clip_inside(c: &InterleavedCase) -> CheckResult {
    let mut o = Outcome::new();
    o.fp = fp_of(c);
    let (x0, y0, x1, y1) = c.rect;
    let run = |inside: bool| -> Vec<u32> {
        let mut dt = new_target(c.w, c.h, &c.init);
        if !inside {
            dt.push_clip_rect(irect(x0, y0, x1, y1));
        }
        dt.push_layer_with_blend(c.opacity.0, BLEND_MODES[c.blend as usize]);
        if inside {
            dt.push_clip_rect(irect(x0, y0, x1, y1));
        }
        dt.set_transform(&to_transform(&c.xf));
        apply(&mut dt, &c.first);
        if let Some((op, bl)) = &c.nested {
            dt.push_layer_with_blend(op.0, BLEND_MODES[*bl as usize]);
            apply(&mut dt, &c.second);
            dt.pop_layer();
        }
        dt.pop_layer();
        // the clip is still in force here
        apply(&mut dt, &c.second);
        dt.pop_clip();
        // and gone here
        dt.set_transform(&Transform::identity());
        dt.fill_rect(0.0, 0.0, 1.0, 1.0, &Source::Solid(SolidSource { r: 0x20, g: 0x40, b: 0x60, a: 0x80 }), &DrawOptions::new());
        dt.get_data().to_vec()
    };
    let a = run(true);
    let b = run(false);
    for i in 0..a.len() {
        o.judged += 1;
        if a[i] != b[i] {
            let (x, y) = (i as i32 % c.w, i as i32 / c.w);
            return Err(format!(
                "layer({}) pushed, clip rect ({},{})-({},{}) pushed inside it, {}, layer popped, {}, clip popped: pixel ({},{}) is {}, but {} when the same clip is pushed just before the layer instead (the clip stack is not touched by push_layer / pop_layer)",
                blend_name(c.blend),
                x0,
                y0,
                x1,
                y1,
                c.first.kind(),
                c.second.kind(),
                x,
                y,
                hex(a[i]),
                hex(b[i])
            ));
        }
    }
    let outside_changed = (0..a.len()).any(|i| {
        let (x, y) = (i as i32 % c.w, i as i32 / c.w);
        !(x >= x0 && x < x1 && y >= y0 && y < y1) && !(x == 0 && y == 0)
    });
    o.nontrivial = outside_changed && a != c.init;
    o.class("clip-pushed-inside-the-layer-and-popped-after-it");
    o.class(c.second.kind());
    Ok(o)
}

/// the geometry of a drawing op with an opaque source, SrcOver (to see where it lands)
fn whitened_for_probe(op: &Op) -> Option<Op> {
    let white = SrcSpec::Solid(0xffff_ffff);
    let o = |o: &Opts| Opts { blend: SRC_OVER, alpha: Fl(1.0), aa: o.aa };
    Some(match op {
        Op::Fill(p, _, op) => Op::Fill(p.clone(), white, o(op)),
        Op::FillRect(x, y, w, h, _, op) => Op::FillRect(*x, *y, *w, *h, white, o(op)),
        Op::Stroke(p, _, st, op) => Op::Stroke(p.clone(), white, st.clone(), o(op)),
        Op::Clear(_) => Op::Clear(0xffff_ffff),
        other => other.clone(),
    })
}

fn interleaved_strategy(ctx: &Ctx) -> BoxedStrategy<InterleavedCase> {
    let ctx = ctx.clone();
    (6i32..=20, 6i32..=20)
        .prop_flat_map(move |(w, h)| {
            let d = Domain::free(w, h);
            let rect = (1..w - 2, 1..h - 2).prop_flat_map(move |(x0, y0)| (Just(x0), Just(y0), x0 + 1..w, y0 + 1..h));
            (
                Just((w, h)),
                init_pixels(w, h),
                rect,
                alpha_f(),
                blend_biased(),
                xf_for(&d),
                draw_op(&ctx, &d),
                draw_op(&ctx, &d),
                prop::option::weighted(0.3, (alpha_f(), blend_biased())),
                prop::bool::weighted(0.35),
            )
        })
        .prop_map(|((w, h), init, rect, op, bl, xf, first, second, nested, clip_inside)| InterleavedCase { w, h, init, rect, opacity: Fl(op), blend: bl, xf, first, second, nested: nested.map(|(a, b)| (Fl(a), b)), clip_inside })
        .boxed()
}

// ---------------------------------------------------------------------------
// part replaced: an opaque Src layer nested in a layer whose rectangle is a different one of the same area

#[derive(Clone, Debug, Serialize, Deserialize)]
pub struct ReplacedCase {
    pub w: i32,
    pub h: i32,
    pub init: Vec<u32>,
    /// clip rectangle (x0, y0, x1, y1) the outer layer is pushed under (popped again while that layer is open)
    pub r1: (i32, i32, i32, i32),
    /// clip rectangle the inner layer is pushed under: same area, other offset and/or transposed
    pub r2: (i32, i32, i32, i32),
    pub outer_opacity: Fl,
    pub outer_blend: u8,
    /// fill_rect in the outer layer before the inner one: (x, y, w, h), premultiplied colour
    pub a: ([f32; 4], u32),
    /// fill_rect in the inner layer
    pub b: ([f32; 4], u32),
}

/// push_layer_with_blend(1.0, Src) under clip R2 inside an open layer, draw, pop: by the statement the group is drawn
/// on a transparent surface and replaces, inside R2, what the outer layer held; that is what clear(transparent)
/// followed by the same draw, both under R2 and directly in the outer layer, produce. Bit-identical.
pub fn check_replaced(c: &ReplacedCase) -> CheckResult {
    let mut o = Outcome::new();
    o.fp = fp_of(c);
    let run = |nested: bool| {
        let mut dt = new_target(c.w, c.h, &c.init);
        dt.push_clip_rect(irect(c.r1.0, c.r1.1, c.r1.2, c.r1.3));
        dt.push_layer_with_blend(c.outer_opacity.0, BLEND_MODES[c.outer_blend as usize]);
        dt.fill_rect(c.a.0[0], c.a.0[1], c.a.0[2], c.a.0[3], &Source::Solid(solid_of(c.a.1)), &DrawOptions::new());
        dt.pop_clip();
        dt.push_clip_rect(irect(c.r2.0, c.r2.1, c.r2.2, c.r2.3));
        if nested {
            dt.push_layer_with_blend(1.0, BlendMode::Src);
        } else {
            dt.clear(SolidSource { r: 0, g: 0, b: 0, a: 0 });
        }
        dt.fill_rect(c.b.0[0], c.b.0[1], c.b.0[2], c.b.0[3], &Source::Solid(solid_of(c.b.1)), &DrawOptions::new());
        if nested {
            dt.pop_layer();
        }
        dt.pop_clip();
        dt.pop_layer();
        dt.get_data().to_vec()
    };
    let (with_layer, direct) = (run(true), run(false));
    let diff = (0..with_layer.len()).find(|i| with_layer[*i] != direct[*i]).map(|i| format!("pixel ({},{}): {} vs {}", i as i32 % c.w, i as i32 / c.w, hex(with_layer[i]), hex(direct[i])));
    if let Some(m) = diff {
        return Err(format!(
            "an opaque Src layer under clip {:?} nested in a layer of rectangle {:?} differs from clearing that clip to transparent and drawing directly in the outer layer: {}",
            c.r2, c.r1, m
        ));
    }
    o.judged = c.init.len() as u64;
    o.nontrivial = c.r1 != c.r2 && with_layer != c.init;
    let area = |r: (i32, i32, i32, i32)| (r.2 - r.0) * (r.3 - r.1);
    o.class_if(c.r1 != c.r2 && area(c.r1) == area(c.r2), "inner-rectangle-differs-from-the-outer-one-with-equal-area");
    o.class_if((c.r1.2 - c.r1.0) != (c.r2.2 - c.r2.0), "transposed");
    Ok(o)
}

fn replaced_strategy() -> BoxedStrategy<ReplacedCase> {
    (6i32..=14, 6i32..=14)
        .prop_flat_map(|(w, h)| {
            let f = || 0.0f64..1.0;
            let rect = move || (-2.0f32..w as f32, -2.0f32..h as f32, 0.5f32..w as f32, 0.5f32..h as f32).prop_map(|(x, y, rw, rh)| [x, y, rw, rh]);
            (Just((w, h)), init_pixels(w, h), (f(), f(), f(), f()), (f(), f(), any::<bool>()), alpha_f(), blend_biased(), (rect(), px_premul()), (rect(), px_premul()))
        })
        .prop_map(|((w, h), init, (fw, fh, fx, fy), (gx, gy, transposed), op, blend, a, b)| {
            let pick = |f: f64, lo: i32, hi: i32| lo + (f * (hi - lo + 1) as f64) as i32;
            // R1 of 2..min(w,h)-1 by 2..min(w,h)-1 (so that its transpose fits as well), anywhere on the surface
            let m = w.min(h) - 1;
            let (w1, h1) = (pick(fw, 2, m).min(m), pick(fh, 2, m).min(m));
            let (x1, y1) = (pick(fx, 0, w - w1).min(w - w1), pick(fy, 0, h - h1).min(h - h1));
            let (w2, h2) = if transposed { (h1, w1) } else { (w1, h1) };
            let (x2, y2) = (pick(gx, 0, w - w2).min(w - w2), pick(gy, 0, h - h2).min(h - h2));
            ReplacedCase { w, h, init, r1: (x1, y1, x1 + w1, y1 + h1), r2: (x2, y2, x2 + w2, y2 + h2), outer_opacity: Fl(op), outer_blend: blend, a, b }
        })
        .boxed()
}

pub fn property(ctx: &Ctx) -> Property {
    let c = ctx.clone();
    let c2 = ctx.clone();
    Property {
        id: "C06",
        rule: "cases: properly nested histories with at least one push_layer_with_blend group (opacity in {0,1,0.5,1/255-neighbours,uniform}, 28 blend modes) at top level or under a clip (rect at an offset / partly off-surface / inverted, quarter-grid path), containing fills, fill_rects, masks, clear, image draws, quarter-pixel transform changes (one group in ten ends by setting a non-invertible transform, so that it is popped under it), balanced clip pushes and nested layers (depth <= 3), on non-transparent initial contents. Oracle: the group's inner ops are replayed without the layer on a separate transparent surface with the same transform and clip stack (nested layers judged recursively there); after pop every pixel must equal the compositor formula with source = isolated group pixel, coverage = round(255 opacity), clip coverage = product of pushed path coverages, blend = layer blend (exact at opacity 1 without partial clip, +-3/255 otherwise); outside the clip rectangle unchanged; the base surface must not change while the layer is open; push/pop leave the transform alone. part interleaved: clip rect at an offset, layer, a draw, then a second draw (any kind, any transform, in a third of the cases inside a further layer) made either after or before the clip is popped; pixels inside the rectangle must be bit-identical between the two orders; outside it, pixels that no draw reached must keep their value when the layer's blend mode keeps the destination under a transparent source. A third of the cases push the clip *inside* the layer and pop it after pop_layer (with a draw in between that must still be clipped): bit-identical to the history that pushes the same clip just before the layer. One clipped group in eight lies beside the surface in one axis only (an empty clip whose bounds are not empty rectangles), and a panic of the library in any of these histories, other than the known sw-composite ones, is a failure of this property (an empty layer must be harmless). part replaced: a layer under clip R1 whose clip is popped while it is open, then an opaque Src layer pushed under a clip R2 of the same area at another offset or transposed, one fill_rect in each: bit-identical to clearing R2 to transparent and drawing directly in the outer layer (a Src group replaces what lies under it inside the clip). Non-trivial: opacity != 1, blend != SrcOver, nesting >= 2, layer origin != (0,0) or clear inside; distinct by hash of the case.",
        assumptions: vec!["the inner draws themselves (on a plain surface) are judged by C02/C03/C05", "improperly interleaved stacks (popping inside a layer a clip pushed outside it): the statement does not say what a draw outside the layer's original clip means, so part interleaved only demands what holds under every reading (inside the rectangle, popping the clip before or after the draw is the same)"],
        parts: vec![part("group", 100_000, 1_500_000, move || strategy(&c), check), part("interleaved", 30_000, 600_000, move || interleaved_strategy(&c2), check_interleaved), part("replaced", 20_000, 400_000, replaced_strategy, check_replaced)],
        min_class_fraction: vec![
            ("group", "opacity-partial", 0.2),
            ("group", "layer-blend-non-srcover", 0.3),
            ("group", "nested-layer", 0.05),
            ("group", "layer-origin-nonzero", 0.1),
            ("group", "clear-inside-layer", 0.03),
            ("group", "layer-under-clip-path", 0.1),
            ("group", "popped-under-singular-transform", 0.015),
            ("interleaved", "second-draw-reaches-beyond-the-layer", 0.15),
            ("interleaved", "clip-pushed-inside-the-layer-and-popped-after-it", 0.2),
            ("replaced", "inner-rectangle-differs-from-the-outer-one-with-equal-area", 0.5),
        ],
        panic_is_violation: true,
    }
}
