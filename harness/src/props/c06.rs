//! C06 — a layer is an isolated group composited once with its opacity and blend mode.

use crate::compose::*;
use crate::gen::*;
use crate::runner::*;
use crate::scene::*;
use crate::tree::*;
use proptest::prelude::*;
use raqote::*;
use serde::{Deserialize, Serialize};

#[derive(Clone, Debug, Serialize, Deserialize)]
pub struct Case {
    pub w: i32,
    pub h: i32,
    pub init: Vec<u32>,
    pub nodes: Vec<Node>,
}

/// state needed to re-establish the context of a group on a separate surface
#[derive(Clone)]
struct Context {
    /// clip pushes live at this point, each with the transform it was pushed under
    clips: Vec<(Op, Xf)>,
    xf: Xf,
}

struct Walk<'a> {
    w: i32,
    h: i32,
    o: &'a mut Outcome,
    depth: usize,
}

/// Apply `nodes` to `dt` (whose visible buffer is a plain surface: no layer is open on it at this
/// level), judging every Layer node met at this level against the isolated-group reference.
fn walk(nodes: &[Node], dt: &mut DrawTarget, cx: &mut Context, model_clip: &mut ClipCtx, clip_exact: &mut Vec<bool>, wk: &mut Walk) -> Result<(), String> {
    let (w, h) = (wk.w, wk.h);
    for node in nodes {
        match node {
            Node::Op(Op::SetXf(x)) => {
                dt.set_transform(&to_transform(x));
                cx.xf = *x;
            }
            Node::Op(op) => apply(dt, op),
            Node::Clip(push, inner) => {
                apply(dt, push);
                cx.clips.push((push.clone(), cx.xf));
                let ok = model_clip.push(push, &cx.xf, w, h);
                if !ok {
                    model_clip.entries.push(ClipEntry::Path(vec![vec![0, 255]; (w * h) as usize]));
                }
                clip_exact.push(ok);
                walk(inner, dt, cx, model_clip, clip_exact, wk)?;
                dt.pop_clip();
                cx.clips.pop();
                model_clip.pop();
                clip_exact.pop();
            }
            Node::Layer(opacity, blend, inner) => {
                let before = dt.get_data().to_vec();
                let t_before = *dt.get_transform();
                // --- the real thing
                dt.push_layer_with_blend(opacity.0, BLEND_MODES[*blend as usize]);
                let mid = dt.get_data().to_vec();
                if mid != before {
                    return Err("push_layer changed the visible surface".into());
                }
                let mut scratch_ctx = cx.clone();
                let mut scratch_clip = model_clip.clone();
                let mut scratch_exact = clip_exact.clone();
                // drawing into the group: apply without judging at this level (the base surface must not change)
                apply_inner(inner, dt, &mut scratch_ctx);
                let during = dt.get_data().to_vec();
                if during != before {
                    let i = (0..before.len()).find(|i| during[*i] != before[*i]).unwrap();
                    return Err(format!(
                        "drawing inside an open layer changed the base surface: pixel ({},{}) {} -> {} (all drawing calls, including clear, must target the innermost open layer)",
                        i as i32 % w,
                        i as i32 / w,
                        hex(before[i]),
                        hex(during[i])
                    ));
                }
                dt.pop_layer();
                let after = dt.get_data().to_vec();
                // transform changes made inside the group persist (set_transform is not scoped); push/pop themselves must not touch it
                let t_expected = to_transform(&scratch_ctx.xf);
                if from_transform(dt.get_transform()) != from_transform(&t_expected) {
                    return Err(format!("pop_layer changed the current transform: {:?} expected {:?} (before the group {:?})", dt.get_transform(), t_expected, t_before));
                }
                // --- the reference: the same inner ops on a separate, initially transparent surface with the
                // same transform and clip stack (nested layers inside are judged recursively there)
                let mut g = DrawTarget::new(w, h);
                for (push, x) in &cx.clips {
                    g.set_transform(&to_transform(x));
                    apply(&mut g, push);
                }
                g.set_transform(&to_transform(&cx.xf));
                let mut gcx = cx.clone();
                wk.depth += 1;
                walk(inner, &mut g, &mut gcx, &mut scratch_clip, &mut scratch_exact, wk)?;
                wk.depth -= 1;
                let gp = g.get_data().to_vec();
                cx.xf = scratch_ctx.xf;
                // --- judge the single composite
                let exact = clip_exact.iter().all(|b| *b);
                let cs = model_clip.combined(w, h);
                let ob = (opacity.0 * 255.0 + 0.5) as u8 as u32;
                let tol = TOL + model_clip.n_paths() as f64;
                for i in 0..before.len() {
                    let (x, y) = (i as i32 % w, i as i32 / w);
                    if !model_clip.in_rects(x, y) {
                        if after[i] != before[i] {
                            return Err(format!("pop_layer changed pixel ({},{}) outside the clip rectangle: {} -> {}", x, y, hex(before[i]), hex(after[i])));
                        }
                        continue;
                    }
                    if !exact {
                        continue;
                    }
                    if let Err(e) = judge_pixel(*blend, gp[i], before[i], &[ob], &cs[i], after[i], tol) {
                        return Err(format!(
                            "layer(opacity {}, {}) at nesting depth {}: pixel ({},{}): group rendered in isolation holds {}; {}",
                            opacity.0,
                            blend_name(*blend),
                            wk.depth,
                            x,
                            y,
                            hex(gp[i]),
                            e
                        ));
                    }
                    wk.o.judged += 1;
                }
                let o = &mut *wk.o;
                let origin_nonzero = cx.clips.iter().any(|(c, _)| matches!(c, Op::PushClipRect(a, b, _, _) if *a > 0 || *b > 0));
                let has_clear = flat(inner).iter().any(|op| matches!(op, Op::Clear(_)));
                if ob != 255 || *blend != SRC_OVER || wk.depth >= 1 || origin_nonzero || has_clear {
                    o.nontrivial = true;
                }
                o.class_if(ob != 255 && ob != 0, "opacity-partial");
                o.class_if(ob == 0, "opacity-zero");
                o.class_if(*blend != SRC_OVER, "layer-blend-non-srcover");
                o.class_if(wk.depth >= 1, "nested-layer");
                o.class_if(origin_nonzero, "layer-origin-nonzero");
                o.class_if(has_clear, "clear-inside-layer");
                o.class_if(!cx.clips.is_empty(), "layer-under-clip");
                o.class_if(model_clip.n_paths() > 0, "layer-under-clip-path");
                let empty = !(0..w * h).any(|i| model_clip.in_rects(i % w, i / w));
                o.class_if(empty, "layer-under-empty-clip");
                o.class_if(count_draws(inner) >= 2, "multi-draw-group");
                o.class_if(xf_det(&scratch_ctx.xf) == 0.0 && gp.iter().any(|p| *p != 0), "popped-under-singular-transform");
            }
        }
    }
    Ok(())
}

/// apply nodes (with nested groups) without judging; tracks transform changes
fn apply_inner(nodes: &[Node], dt: &mut DrawTarget, cx: &mut Context) {
    for op in flat(nodes) {
        if let Op::SetXf(x) = &op {
            cx.xf = *x;
        }
        apply(dt, &op);
    }
}

pub fn check(c: &Case) -> CheckResult {
    let mut o = Outcome::new();
    o.fp = fp_of(c);
    let mut dt = new_target(c.w, c.h, &c.init);
    let mut cx = Context { clips: vec![], xf: IDENT };
    let mut mc = ClipCtx::default();
    let mut ex = vec![];
    let mut wk = Walk { w: c.w, h: c.h, o: &mut o, depth: 0 };
    walk(&c.nodes, &mut dt, &mut cx, &mut mc, &mut ex, &mut wk)?;
    Ok(o)
}

pub fn strategy(ctx: &Ctx) -> BoxedStrategy<Case> {
    let ctx = ctx.clone();
    prop_oneof![24 => (2i32..=10, 2i32..=10), 1 => (257i32..=300, 2i32..=3), 1 => (2i32..=3, 257i32..=300)]
        .prop_flat_map(move |(w, h)| {
            let mut d = Domain::exact(w, h);
            d.layers = true;
            d.max_depth = 4;
            d.max_nodes = 3;
            let dd = d.clone();
            let ctx2 = ctx.clone();
            // always at least one layer group at top level, possibly under a clip
            let inner = tree(&ctx, &d);
            let group = (alpha_f(), blend_biased(), inner).prop_map(|(o, b, k)| Node::Layer(Fl(o), b, k));
            let clipped_group = (clip_push(&dd), group.clone()).prop_map(|(c, g)| Node::Clip(c, vec![g]));
            let pre = prop::collection::vec(draw_op(&ctx2, &dd).prop_map(Node::Op), 0..=1);
            (Just((w, h)), init_pixels(w, h), pre, prop_oneof![1 => group.boxed(), 1 => clipped_group.boxed()], tree(&ctx2, &dd), prop::option::weighted(0.1, xf_singular()))
        })
        .prop_map(|((w, h), init, pre, mut g, post, sing)| {
            let mut nodes = pre;
            // one group in ten is popped while a non-invertible transform is in force (set as the last call inside
            // the group): the group must still be composited, pop_layer works in device space
            if let Some(sx) = sing {
                fn last_in_group(n: &mut Node, sx: Xf) {
                    match n {
                        Node::Layer(_, _, kids) => kids.push(Node::Op(Op::SetXf(sx))),
                        Node::Clip(_, kids) => {
                            if let Some(k) = kids.last_mut() {
                                last_in_group(k, sx)
                            }
                        }
                        _ => {}
                    }
                }
                last_in_group(&mut g, sx);
                nodes.push(g);
                nodes.push(Node::Op(Op::SetXf(IDENT)));
            } else {
                nodes.push(g);
            }
            // keep the tail short: one more node exercises "state unchanged by push/pop"
            nodes.extend(post.into_iter().take(1));
            Case { w, h, init, nodes }
        })
        .boxed()
}

pub fn property(ctx: &Ctx) -> Property {
    let c = ctx.clone();
    Property {
        id: "C06",
        rule: "cases: properly nested histories with at least one push_layer_with_blend group (opacity in {0,1,0.5,1/255-neighbours,uniform}, 28 blend modes) at top level or under a clip (rect at an offset / partly off-surface / inverted, quarter-grid path), containing fills, fill_rects, masks, clear, image draws, quarter-pixel transform changes (one group in ten ends by setting a non-invertible transform, so that it is popped under it), balanced clip pushes and nested layers (depth <= 3), on non-transparent initial contents. Oracle: the group's inner ops are replayed without the layer on a separate transparent surface with the same transform and clip stack (nested layers judged recursively there); after pop every pixel must equal the compositor formula with source = isolated group pixel, coverage = round(255 opacity), clip coverage = product of pushed path coverages, blend = layer blend (exact at opacity 1 without partial clip, +-3/255 otherwise); outside the clip rectangle unchanged; the base surface must not change while the layer is open; push/pop leave the transform alone. Non-trivial: opacity != 1, blend != SrcOver, nesting >= 2, layer origin != (0,0) or clear inside; distinct by hash of the case.",
        assumptions: vec!["the inner draws themselves (on a plain surface) are judged by C02/C03/C05", "improperly interleaved stacks (popping inside a layer a clip pushed outside it) are outside the statement and not generated"],
        parts: vec![part("group", 100_000, 1_500_000, move || strategy(&c), check)],
        min_class_fraction: vec![
            ("group", "opacity-partial", 0.2),
            ("group", "layer-blend-non-srcover", 0.3),
            ("group", "nested-layer", 0.05),
            ("group", "layer-origin-nonzero", 0.1),
            ("group", "clear-inside-layer", 0.03),
            ("group", "layer-under-clip-path", 0.1),
            ("group", "popped-under-singular-transform", 0.015),
        ],
        panic_is_violation: false,
    }
}
