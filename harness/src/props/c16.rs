//! C16 — flattening preserves geometry and subpath structure.

use crate::geom::*;
use crate::runner::*;
use crate::scene::*;
use proptest::prelude::*;
use raqote::*;
use serde::{Deserialize, Serialize};

#[derive(Clone, Debug, Serialize, Deserialize)]
pub struct Case {
    pub path: PathSpec,
    pub tol: f32,
}

/// a curve of the input together with its true starting point under the statement's cursor rule
enum In {
    Exact(PathOp),
    Curve(Elem, (f32, f32)),
}

fn walk_input(p: &PathSpec) -> Vec<In> {
    let mut out = Vec::new();
    let mut start: Option<P> = None;
    let mut cur: Option<P> = None;
    let f = |x: f32, y: f32| (x as f64, y as f64);
    for op in &p.ops {
        match *op {
            POp::M(x, y) => {
                out.push(In::Exact(PathOp::MoveTo(Point::new(x, y))));
                start = Some(f(x, y));
                cur = start;
            }
            POp::L(x, y) => {
                out.push(In::Exact(PathOp::LineTo(Point::new(x, y))));
                if cur.is_none() {
                    start = Some(f(x, y));
                }
                cur = Some(f(x, y));
            }
            POp::Z => {
                out.push(In::Exact(PathOp::Close));
                // the current point after Close is the subpath's starting point
                cur = start;
            }
            POp::Q(cx, cy, x, y) => {
                let from = cur.unwrap_or(f(cx, cy));
                if cur.is_none() {
                    start = Some(from);
                }
                out.push(In::Curve(Elem::Quad(from, f(cx, cy), f(x, y)), (x, y)));
                cur = Some(f(x, y));
            }
            POp::C(ax, ay, bx, by, x, y) => {
                let from = cur.unwrap_or(f(ax, ay));
                if cur.is_none() {
                    start = Some(from);
                }
                out.push(In::Curve(Elem::Cubic(from, f(ax, ay), f(bx, by), f(x, y)), (x, y)));
                cur = Some(f(x, y));
            }
        }
    }
    out
}

fn same_op(a: &PathOp, b: &PathOp) -> bool {
    match (a, b) {
        (PathOp::MoveTo(p), PathOp::MoveTo(q)) | (PathOp::LineTo(p), PathOp::LineTo(q)) => p.x == q.x && p.y == q.y,
        (PathOp::Close, PathOp::Close) => true,
        _ => false,
    }
}

/// check one curve against the polyline vertices that replaced it; returns the measured deviation
/// (an upper bound of the Hausdorff distance, measured along the parametric correspondence and
/// re-measured without that restriction before anything is reported)
fn check_curve(e: &Elem, verts: &[P], tol: f64, scale: f64) -> Result<f64, String> {
    // reference samples of the true curve (from its true starting point), spacing <= tol/2
    let n = ((e.ctrl_len() / (tol * 0.5)).ceil() as usize).clamp(64, 40_000);
    let fine: Vec<P> = (0..=n).map(|i| e.at(i as f64 / n as f64)).collect();
    let vtol = 1e-4 * scale + 1e-4;
    // (a) vertices on the curve in parameter order: first-hit search along the reference polyline,
    // coarse test against the reference chord, then golden-section refinement on the exact curve
    let coarse = 1.5 * e.ctrl_len() / n as f64;
    let refine = |q: P, s: usize| -> f64 {
        let mut lo = (s as f64 - 1.0).max(0.0) / n as f64;
        let mut hi = (s as f64 + 2.0).min(n as f64) / n as f64;
        // the window's own end points (in particular t = 1, the curve's end point) are candidates too:
        // a curve that doubles back inside the window has two local minima
        let ends = dist(e.at(lo), q).min(dist(e.at(hi), q));
        let g = 0.618_033_988_749_895;
        let mut c = hi - g * (hi - lo);
        let mut d = lo + g * (hi - lo);
        let mut fc = dist(e.at(c), q);
        let mut fd = dist(e.at(d), q);
        for _ in 0..48 {
            if fc < fd {
                hi = d;
                d = c;
                fd = fc;
                c = hi - g * (hi - lo);
                fc = dist(e.at(c), q);
            } else {
                lo = c;
                c = d;
                fc = fd;
                d = lo + g * (hi - lo);
                fd = dist(e.at(d), q);
            }
        }
        fc.min(fd).min(dist(e.at(lo), q)).min(dist(e.at(hi), q)).min(ends)
    };
    let on_curve_at = |q: P, s: usize| -> bool { dist_point_seg(q, fine[s], fine[s + 1]) <= vtol + coarse && refine(q, s) <= vtol };
    let mut idx: Vec<usize> = Vec::with_capacity(verts.len() + 1);
    idx.push(0);
    let mut seg = 0usize;
    for (i, v) in verts.iter().enumerate() {
        let found = (seg..n).find(|s| on_curve_at(*v, *s));
        match found {
            Some(mut s) => {
                // the first hit may be a few samples early (the vertex tolerance is wider than the sample
                // spacing): walk down to the nearest sample, which stops at the first local minimum and so
                // stays on the right branch of a curve that doubles back
                while s + 1 < n && dist(*v, fine[s + 1]) < dist(*v, fine[s]) {
                    s += 1;
                }
                seg = s.saturating_sub(1);
                idx.push(s);
            }
            None => {
                let anywhere = (0..n).any(|s| on_curve_at(*v, s));
                return Err(if anywhere {
                    format!("vertex {} {:?} of the polyline replacing a curve lies on the curve but before its predecessor (not in parameter order)", i, v)
                } else {
                    format!("vertex {} {:?} of the polyline replacing a curve is not on the curve that starts at its true starting point {:?} (tolerance {})", i, v, e.start(), vtol)
                });
            }
        }
    }
    let mut poly = vec![e.start()];
    poly.extend_from_slice(verts);
    // the correspondence between chords and arcs found above is only as sharp as the vertex tolerance (a vertex
    // may be attributed to a sample a few steps early), so a distance measured along it that is not clearly
    // inside the bound is measured again without the restriction
    let remeasure = 4.0 * tol + 2e-6 * scale;
    let full_to_poly = |q: P| (0..poly.len() - 1).fold(f64::INFINITY, |d, s| d.min(dist_point_seg(q, poly[s], poly[s + 1])));
    // the chords around chord i (the samples at the ends of an arc belong to a neighbouring chord)
    let near_poly = |q: P, i: usize| (i.saturating_sub(3)..(i + 2).min(poly.len() - 1)).fold(f64::INFINITY, |d, s| d.min(dist_point_seg(q, poly[s], poly[s + 1])));
    let full_to_curve = |q: P| (0..n).fold(f64::INFINITY, |d, s| d.min(dist_point_seg(q, fine[s], fine[s + 1])));
    let mut dev = 0.0f64;
    for i in 1..poly.len() {
        let (a, b) = (poly[i - 1], poly[i]);
        let (lo, hi) = (idx[i - 1].saturating_sub(1), (idx[i] + 1).min(n));
        // curve -> polyline: samples of this chord's arc against the chord
        for j in lo..=hi {
            let mut d = dist_point_seg(fine[j], a, b);
            if d > remeasure {
                d = near_poly(fine[j], i);
                if d > remeasure {
                    d = full_to_poly(fine[j]);
                }
            }
            dev = dev.max(d);
        }
        // polyline -> curve: samples of the chord against its own arc
        let m = ((dist(a, b) / tol).ceil() as usize).clamp(1, 32);
        for k in 0..=m {
            let q = add(mul(a, 1.0 - k as f64 / m as f64), mul(b, k as f64 / m as f64));
            let mut d = f64::INFINITY;
            for s in lo.saturating_sub(1)..hi {
                d = d.min(dist_point_seg(q, fine[s], fine[s + 1]));
            }
            if d > remeasure {
                d = full_to_curve(q);
            }
            dev = dev.max(d);
        }
    }
    // the tail of the curve after the last vertex (the last vertex must be the end point; checked by the caller)
    for j in idx[idx.len() - 1]..=n {
        let d = full_to_poly(fine[j]);
        dev = dev.max(d);
    }
    Ok(dev)
}

/// match flattened ops against the input; returns per-curve deviations
fn match_ops(input: &[In], out: &[PathOp], tol: f64, scale: f64) -> Result<Vec<f64>, String> {
    fn rec(input: &[In], out: &[PathOp], i: usize, j: usize, tol: f64, scale: f64, devs: &mut Vec<f64>, first_err: &mut Option<String>) -> bool {
        if i == input.len() {
            if j == out.len() {
                return true;
            }
            first_err.get_or_insert(format!("flattened path has {} extra op(s) at the end: {:?}", out.len() - j, &out[j..]));
            return false;
        }
        match &input[i] {
            In::Exact(op) => {
                if j < out.len() && same_op(op, &out[j]) {
                    rec(input, out, i + 1, j + 1, tol, scale, devs, first_err)
                } else {
                    first_err.get_or_insert(format!("input op {} {:?} is not preserved at output position {} (found {:?})", i, op, j, out.get(j)));
                    false
                }
            }
            In::Curve(e, end) => {
                // candidates: runs of LineTo ending exactly at the curve's end point
                let mut k = j;
                let mut verts: Vec<P> = Vec::new();
                let mut any = false;
                while k < out.len() {
                    let PathOp::LineTo(p) = out[k] else { break };
                    verts.push((p.x as f64, p.y as f64));
                    if p.x == end.0 && p.y == end.1 {
                        any = true;
                        match check_curve(e, &verts, tol, scale) {
                            Ok(dev) => {
                                devs.push(dev);
                                if rec(input, out, i + 1, k + 1, tol, scale, devs, first_err) {
                                    return true;
                                }
                                devs.pop();
                            }
                            Err(m) => {
                                first_err.get_or_insert(m);
                            }
                        }
                    }
                    k += 1;
                }
                if !any {
                    first_err.get_or_insert(format!("the polyline replacing curve op {} does not end exactly at the curve's end point {:?} (ops from {}: {:?})", i, end, j, &out[j..out.len().min(j + 6)]));
                }
                false
            }
        }
    }
    let mut devs = Vec::new();
    let mut err = None;
    if rec(input, out, 0, 0, tol, scale, &mut devs, &mut err) {
        Ok(devs)
    } else {
        Err(err.unwrap_or_else(|| "flattened ops do not match the input structure".into()))
    }
}

pub fn check(c: &Case) -> CheckResult {
    let path = c.path.build();
    let flat = path.flatten(c.tol);
    let mut o = Outcome::new();
    o.fp = fp_of(c);
    for op in &flat.ops {
        if matches!(op, PathOp::QuadTo(..) | PathOp::CubicTo(..)) {
            return Err(format!("flatten() output contains a curve op {:?}", op));
        }
    }
    let input = walk_input(&c.path);
    let scale = c.path.points().iter().fold(1.0f64, |m, p| m.max(p.0.abs() as f64).max(p.1.abs() as f64));
    let tol = c.tol as f64;
    let devs = match_ops(&input, &flat.ops, tol, scale)?;
    // slack: f32 noise plus the reference sampling error (spacing <= tol/2, i.e. <= tol/4 of distance)
    // (f32 evaluation noise of the vertices: observed up to 2e-6 x the largest coordinate)
    let slack = 5e-6 * scale + 1e-4 + tol / 4.0;
    for d in &devs {
        if *d > 8.0 * tol + slack {
            return Err(format!("polyline deviates from its curve by {} > 8 x tolerance ({})", d, c.tol));
        }
    }
    // deviation shrinks with the tolerance
    let tol4 = c.tol / 4.0;
    let flat4 = path.flatten(tol4);
    let devs4 = match_ops(&input, &flat4.ops, tol4 as f64, scale)?;
    for (d4, d) in devs4.iter().zip(&devs) {
        if *d4 > d.max(8.0 * tol4 as f64) + slack {
            return Err(format!("deviation at tolerance/4 ({}) exceeds both the deviation at tolerance ({}) and 8 x tolerance/4", d4, d));
        }
    }
    o.judged = (devs.len() + flat.ops.len()) as u64;
    let ncurves = devs.len();
    o.nontrivial = ncurves >= 1;
    let mut after_close = false;
    let mut after_move = false;
    for w in c.path.ops.windows(2) {
        if matches!(w[1], POp::Q(..) | POp::C(..)) {
            after_close |= matches!(w[0], POp::Z);
            after_move |= matches!(w[0], POp::M(..));
        }
    }
    o.class_if(after_close, "curve-after-close");
    o.class_if(after_move, "curve-after-moveto");
    o.class_if(matches!(c.path.ops.first(), Some(POp::Q(..) | POp::C(..))), "curve-first");
    o.class_if(c.path.ops.iter().filter(|p| matches!(p, POp::M(..))).count() > 1, "multi-subpath");
    o.class_if(ncurves >= 2, "multi-curve");
    o.class_if(ncurves >= 1 && flat.ops.len() > 300 * ncurves, "curve-with-more-than-256-segments");
    o.class_if(ncurves >= 1 && c.path.points().iter().all(|p| p.0.abs() < 0.05 && p.1.abs() < 0.05) && c.tol < 1e-3, "tiny-curves-at-a-fine-tolerance");
    {
        // a MoveTo whose target is exactly the end point of the op before it (not the first op)
        let mut cur: Option<(f32, f32)> = None;
        let mut hit = false;
        for (i, op) in c.path.ops.iter().enumerate() {
            match *op {
                POp::M(x, y) => {
                    if i > 0 && cur == Some((x, y)) {
                        hit = true;
                    }
                    cur = Some((x, y));
                }
                POp::L(x, y) | POp::Q(_, _, x, y) | POp::C(_, _, _, _, x, y) => cur = Some((x, y)),
                POp::Z => cur = None,
            }
        }
        o.class_if(hit, "moveto-to-current-point");
    }
    Ok(o)
}

fn coord200() -> BoxedStrategy<f32> {
    prop_oneof![4 => -200.0f32..200.0, 2 => (-20i32..=20).prop_map(|v| v as f32), 1 => -2.0f32..2.0].boxed()
}

pub fn ops_strategy(coord: fn() -> BoxedStrategy<f32>, maxops: usize) -> BoxedStrategy<Vec<POp>> {
    let c = coord;
    let pt = move || (c(), c());
    // degenerate classes are produced by reusing earlier points
    let op = prop_oneof![
        2 => pt().prop_map(|(x, y)| POp::M(x, y)),
        3 => pt().prop_map(|(x, y)| POp::L(x, y)),
        3 => (pt(), pt()).prop_map(|((a, b), (x, y))| POp::Q(a, b, x, y)),
        3 => (pt(), pt(), pt()).prop_map(|((a, b), (cc, d), (x, y))| POp::C(a, b, cc, d, x, y)),
        2 => Just(POp::Z),
    ];
    (prop::collection::vec(op, 1..=maxops), prop::collection::vec(0u8..8, maxops))
        .prop_map(|(mut ops, degs)| {
            // degenerate variants: coincident / collinear control points, control = end point
            let mut last: Option<(f32, f32)> = None;
            for (op, d) in ops.iter_mut().zip(degs) {
                match op {
                    POp::Q(a, b, x, y) => {
                        if d == 0 {
                            *a = *x;
                            *b = *y;
                        } else if d == 1 {
                            if let Some(l) = last {
                                *a = (l.0 + *x) / 2.0;
                                *b = (l.1 + *y) / 2.0;
                            }
                        } else if d == 2 {
                            if let Some(l) = last {
                                *a = l.0;
                                *b = l.1;
                            }
                        }
                        last = Some((*x, *y));
                    }
                    POp::C(a, b, cc, dd, x, y) => {
                        if d == 0 {
                            *cc = *x;
                            *dd = *y;
                        } else if d == 1 {
                            *a = *cc;
                            *b = *dd;
                        } else if d == 2 {
                            if let Some(l) = last {
                                *a = l.0;
                                *b = l.1;
                                *cc = *x;
                                *dd = *y;
                            }
                        }
                        last = Some((*x, *y));
                    }
                    POp::M(x, y) | POp::L(x, y) => {
                        // a move_to / line_to to exactly the point the path is already at
                        if d == 0 {
                            if let Some(l) = last {
                                *x = l.0;
                                *y = l.1;
                            }
                        }
                        last = Some((*x, *y));
                    }
                    POp::Z => {}
                }
            }
            ops
        })
        .boxed()
}

fn coord4000() -> BoxedStrategy<f32> {
    prop_oneof![4 => -4000.0f32..4000.0, 1 => (-40i32..=40).prop_map(|v| (v * 100) as f32), 1 => -2.0f32..2.0].boxed()
}

fn coord_tiny() -> BoxedStrategy<f32> {
    prop_oneof![4 => -0.03f32..0.03, 2 => (-30i32..=30).prop_map(|v| v as f32 / 1000.0), 1 => -0.003f32..0.003].boxed()
}

fn coord20() -> BoxedStrategy<f32> {
    prop_oneof![4 => -20.0f32..20.0, 2 => (-20i32..=20).prop_map(|v| v as f32), 1 => -2.0f32..2.0].boxed()
}

fn strategy() -> BoxedStrategy<Case> {
    // control points in +-200 for tolerances >= 0.1, +-20 for the small tolerances (keeps the f64
    // reference sampling at <= tol/2 affordable)
    let big = (ops_strategy(coord200, 10), any::<bool>(), prop::sample::select(vec![0.1f32, 0.25, 1.0, 4.0]));
    let small = (ops_strategy(coord20, 10), any::<bool>(), prop::sample::select(vec![0.01f32, 0.05, 0.1, 0.25]));
    // few, large curves at tolerances small enough that one curve needs hundreds to thousands of segments
    let fine200 = (ops_strategy(coord200, 3), any::<bool>(), prop::sample::select(vec![0.002f32, 0.0005, 0.0001]));
    let fine4000 = (ops_strategy(coord4000, 3), any::<bool>(), prop::sample::select(vec![0.02f32, 0.005, 0.001]));
    // tiny curves at fine tolerances: control polygons a few hundredths of a unit long, tolerance 1e-4..5e-4 (a
    // drawing in large units, or the small features of a path stroked under a big transform)
    let tiny = (ops_strategy(coord_tiny, 5), any::<bool>(), prop::sample::select(vec![1.0e-4f32, 2.0e-4, 5.0e-4]));
    prop_oneof![12 => big, 12 => small, 1 => fine200, 1 => fine4000, 2 => tiny].prop_map(|(ops, evenodd, tol)| Case { path: PathSpec { ops, evenodd }, tol }).boxed()
}

// ---------------------------------------------------------------------------
// agreement in use: fill and contains_point of the flattened path

#[derive(Clone, Debug, Serialize, Deserialize)]
pub struct UseCase {
    pub path: PathSpec,
}

fn coord36() -> BoxedStrategy<f32> {
    prop_oneof![4 => -4.0f32..36.0, 1 => (-2i32..=34).prop_map(|v| v as f32)].boxed()
}

pub fn check_use(c: &UseCase) -> CheckResult {
    let path = c.path.build();
    let mut flat = path.flatten(0.05);
    // the statement does not say flatten keeps `winding`; copy it so only geometry is compared
    flat.winding = path.winding;
    let white = Source::Solid(SolidSource { r: 255, g: 255, b: 255, a: 255 });
    let mut a = DrawTarget::new(32, 32);
    a.fill(&path, &white, &DrawOptions::new());
    let mut b = DrawTarget::new(32, 32);
    b.fill(&flat, &white, &DrawOptions::new());
    let subs = walk(&c.path, &IDENT);
    let polys = fine(&subs, 0.05);
    let cls = classify_pixels(&polys, 32, 32, 3.0);
    let mut o = Outcome::new();
    o.fp = fp_of(c);
    let (pa, pb) = (a.get_data(), b.get_data());
    let mut differing_far = 0;
    for i in 0..pa.len() {
        if cls[i].1 > 1.5 + 0.7072 {
            o.judged += 1;
            if pa[i] != pb[i] {
                return Err(format!(
                    "fill(path) and fill(path.flatten(0.05)) differ at pixel ({},{}) which is {} px from the outline: {} vs {}",
                    i % 32,
                    i / 32,
                    cls[i].1,
                    hex(pa[i]),
                    hex(pb[i])
                ));
            }
            if pa[i] != 0 {
                differing_far += 1;
            }
        } else {
            o.undecided += 1;
        }
    }
    // hit testing agrees away from the outline
    for i in 0..pa.len() {
        if cls[i].1 > 8.0 * 0.05 + 0.05 {
            let (x, y) = ((i % 32) as f32 + 0.5, (i / 32) as f32 + 0.5);
            let h1 = path.contains_point(0.05, x, y);
            let h2 = flat.contains_point(0.05, x, y);
            if h1 != h2 {
                return Err(format!("contains_point({}, {}) is {} on the path but {} on its flattening ({} px from the outline)", x, y, h1, h2, cls[i].1));
            }
        }
    }
    o.nontrivial = c.path.has_curves() && differing_far > 0;
    let mut after_close = false;
    for w in c.path.ops.windows(2) {
        if matches!(w[1], POp::Q(..) | POp::C(..) | POp::L(..)) && matches!(w[0], POp::Z) {
            after_close = true;
        }
    }
    o.class_if(after_close, "draw-after-close");
    o.class_if(c.path.has_curves(), "curves");
    Ok(o)
}

fn use_strategy() -> BoxedStrategy<UseCase> {
    (ops_strategy(coord36, 8), any::<bool>()).prop_map(|(ops, evenodd)| UseCase { path: PathSpec { ops, evenodd } }).boxed()
}

pub fn property(_ctx: &Ctx) -> Property {
    Property {
        id: "C16",
        rule: "part ops: paths of 1-10 ops in any order (curve first, directly after Close, after MoveTo, consecutive closes), control points in +-200 with degenerate variants (coincident, collinear, control = end), tolerance in {0.01,0.05,0.1,0.25,1,4}, plus one case in thirteen with 1-3 ops of large curves (+-200 at tolerance 1e-4..2e-3, +-4000 at 1e-3..2e-2) that need hundreds to thousands of segments each, and one in fourteen with curves a few hundredths of a unit across at tolerance 1e-4..5e-4; oracle = structural match of flatten() output against the input (MoveTo/LineTo/Close preserved in order; each curve replaced by >=1 LineTo ending exactly at its end point), every replacing vertex on the f64 curve *from its true starting point* (cursor after Close = subpath start) in parameter order, Hausdorff deviation <= 8 x tolerance, and deviation at tolerance/4 <= max(deviation, 8 x tolerance/4). part use: fill(path) vs fill(flatten(path,0.05)) identical farther than 1.5 px (+ pixel radius) from the f64 outline, contains_point agrees farther than 8 x tolerance from it. Non-trivial: >=1 curve; distinct by hash of the case.",
        assumptions: vec!["vertex-on-curve tolerance 1e-4*scale+1e-4 (observed 2e-6*scale)", "the statement does not say flatten keeps the winding rule, so it is not demanded"],
        parts: vec![part_outside_c07("ops", 24_000, 1_500_000, strategy, check), part("use", 6_000, 300_000, use_strategy, check_use)],
        min_class_fraction: vec![("ops", "curve-after-close", 0.1), ("ops", "curve-first", 0.1), ("ops", "multi-curve", 0.3), ("ops", "moveto-to-current-point", 0.05), ("ops", "curve-with-more-than-256-segments", 0.01), ("use", "draw-after-close", 0.1)],
        panic_is_violation: false,
    }
}
