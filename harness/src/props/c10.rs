//! C10 — a drawing call's effect is independent of earlier calls.

use crate::gen::*;
use crate::runner::*;
use crate::scene::*;
use crate::tree::*;
use proptest::prelude::*;
use raqote::*;
use serde::{Deserialize, Serialize};

#[derive(Clone, Debug, Serialize, Deserialize)]
pub struct Case {
    pub w: i32,
    pub h: i32,
    pub init: Vec<u32>,
    /// top-level history
    pub nodes: Vec<Node>,
}

fn bbox_dev(p: &PathSpec, xf: &Xf) -> Option<(f64, f64, f64, f64)> {
    let pts = p.points();
    if pts.is_empty() {
        return None;
    }
    let mut b = (f64::INFINITY, f64::INFINITY, f64::NEG_INFINITY, f64::NEG_INFINITY);
    for (x, y) in pts {
        let q = xf_apply(xf, (x as f64, y as f64));
        b.0 = b.0.min(q.0);
        b.1 = b.1.min(q.1);
        b.2 = b.2.max(q.0);
        b.3 = b.3.max(q.1);
    }
    Some(b)
}

/// does this geometry provably draw nothing on a w x h surface?  Judged in *device* space.
fn path_is_noise(p: &PathSpec, xf: &Xf, w: i32, h: i32, grow: f64) -> bool {
    match bbox_dev(p, xf) {
        None => true,
        Some(b) => {
            let (w, h) = (w as f64, h as f64);
            // zero-area: only polylines under an axis-aligned transform are *provably* empty (a degenerate
            // curve's control points are quantised to the sample grid and may paint a sub-pixel sliver)
            let provably_flat = grow == 0.0 && !p.has_curves() && xf[1] == 0.0 && xf[2] == 0.0 && (b.3 - b.1 == 0.0 || b.2 - b.0 == 0.0);
            b.3 + grow < -1.0 || b.1 - grow > h + 1.0 || b.2 + grow < -1.0 || b.0 - grow > w + 1.0 || provably_flat
        }
    }
}

/// a call that draws nothing and must leave no residue
pub fn is_noise(node: &Node, xf: &Xf, w: i32, h: i32) -> bool {
    match node {
        Node::Clip(_, inner) => inner.is_empty(),
        Node::Layer(..) => false,
        Node::Op(op) => {
            let singular = xf_det(xf) == 0.0;
            match op {
                Op::Fill(p, _, _) => singular || path_is_noise(p, xf, w, h, 0.0),
                Op::FillRect(x, y, rw, rh, _, _) => singular || path_is_noise(&PathSpec::rect(*x, *y, *rw, *rh), xf, w, h, 0.0),
                Op::Stroke(p, _, st, _) => {
                    let wd = st.width.0;
                    if singular || !(wd > 0.0) {
                        return true;
                    }
                    // grown by the stroke's outset in device space
                    let norm = ((xf[0] as f64).hypot(xf[1] as f64)).max((xf[2] as f64).hypot(xf[3] as f64));
                    let grow = 0.5 * wd as f64 * (st.miter.0 as f64).max(1.4143) * norm;
                    grow.is_finite() && path_is_noise(p, xf, w, h, grow + 1e-9) && bbox_dev(p, xf).is_some()
                }
                _ => false,
            }
        }
    }
}

fn strip_noise(nodes: &[Node], xf: &mut Xf, w: i32, h: i32) -> Vec<Node> {
    let mut out = Vec::new();
    for n in nodes {
        if let Node::Op(Op::SetXf(x)) = n {
            *xf = *x;
            out.push(n.clone());
            continue;
        }
        if is_noise(n, xf, w, h) {
            continue;
        }
        match n {
            Node::Clip(p, inner) => {
                let i = strip_noise(inner, xf, w, h);
                out.push(Node::Clip(p.clone(), i));
            }
            Node::Layer(o, b, inner) => {
                let i = strip_noise(inner, xf, w, h);
                out.push(Node::Layer(*o, *b, i));
            }
            other => out.push(other.clone()),
        }
    }
    out
}

/// apply ops one by one, asserting the rasteriser-idle hook after every public call
fn apply_checked(dt: &mut DrawTarget, ops: &[Op], what: &str) -> Result<(), String> {
    for op in ops {
        apply(dt, op);
        if !dt.verif_rasterizer_idle() {
            return Err(format!("after {} ({}) the shared rasteriser is not idle: edge buckets, active edges or bounds left over from this call", op.kind(), what));
        }
    }
    Ok(())
}

fn vertical_extent(n: &Node, xf: &Xf) -> Option<(f64, f64)> {
    let p = match n {
        Node::Op(Op::Fill(p, _, _)) | Node::Op(Op::Stroke(p, _, _, _)) => p.clone(),
        Node::Op(Op::FillRect(x, y, w, h, _, _)) => PathSpec::rect(*x, *y, *w, *h),
        _ => return None,
    };
    bbox_dev(&p, xf).map(|b| (b.1, b.3))
}

pub fn check(c: &Case) -> CheckResult {
    let mut o = Outcome::new();
    o.fp = fp_of(c);
    let (w, h) = (c.w, c.h);
    // A: the reused target; B: the history with noise removed
    let mut a = new_target(w, h, &c.init);
    let mut b = new_target(w, h, &c.init);
    if !a.verif_rasterizer_idle() {
        return Err("a new DrawTarget's rasteriser is not idle".into());
    }
    let mut xf = IDENT;
    let mut xf_b = IDENT;
    let mut noise_seen = false;
    let mut visible_after_noise = false;
    let mut extents: Vec<(f64, f64)> = Vec::new();
    for (k, node) in c.nodes.iter().enumerate() {
        let before = a.get_data().to_vec();
        let noise = is_noise(node, &xf, w, h);
        let ops = flat(std::slice::from_ref(node));
        // (iii) + reused run
        apply_checked(&mut a, &ops, "reused target")?;
        let after = a.get_data().to_vec();
        // (i) the same call on a fresh target holding the same pixels and the same transform
        let mut fresh = DrawTarget::from_vec(w, h, before.clone());
        fresh.set_transform(&to_transform(&xf));
        for op in &ops {
            apply(&mut fresh, op);
        }
        if let Some(i) = (0..after.len()).find(|i| after[*i] != fresh.get_data()[*i]) {
            return Err(format!(
                "call #{} ({}) on the reused target gives pixel ({},{}) = {} but the same call on a fresh target with the same pixels and transform gives {} (earlier calls leaked into it)",
                k,
                ops.iter().map(|o| o.kind()).collect::<Vec<_>>().join(" "),
                i as i32 % w,
                i as i32 / w,
                hex(after[i]),
                hex(fresh.get_data()[i])
            ));
        }
        o.judged += after.len() as u64;
        if noise {
            noise_seen = true;
            if after != before {
                return Err(format!("HARNESS? call #{} was classified as drawing nothing but changed pixels", k));
            }
            o.class("noise-call");
        } else {
            // (ii) noise insensitivity: the noise-free history must be at the same pixels here
            let mut tmp = xf_b;
            let stripped = strip_noise(std::slice::from_ref(node), &mut tmp, w, h);
            xf_b = tmp;
            apply_checked(&mut b, &flat(&stripped), "noise-free history")?;
            if let Some(i) = (0..after.len()).find(|i| after[*i] != b.get_data()[*i]) {
                return Err(format!(
                    "after call #{} the history with its no-op calls deleted has pixel ({},{}) = {} but the full history has {} (a call that draws nothing left residue)",
                    k,
                    i as i32 % w,
                    i as i32 / w,
                    hex(b.get_data()[i]),
                    hex(after[i])
                ));
            }
            if after != before {
                if noise_seen {
                    visible_after_noise = true;
                }
                if let Some(e) = vertical_extent(node, &xf) {
                    extents.push(e);
                }
            }
        }
        // track the transform as the history leaves it
        for op in &ops {
            if let Op::SetXf(x) = op {
                xf = *x;
            }
        }
        o.class_if(matches!(node, Node::Layer(..)), "layer-group");
        o.class_if(matches!(node, Node::Clip(..)), "clip-group");
    }
    let disjoint = extents.iter().any(|a| extents.iter().any(|b| a.1 < b.0));
    o.nontrivial = visible_after_noise && disjoint;
    o.class_if(visible_after_noise, "visible-draw-after-noise");
    o.class_if(disjoint, "disjoint-vertical-extents");
    let headless = flat(&c.nodes).iter().any(|op| match op {
        Op::Fill(p, _, _) | Op::Stroke(p, _, _, _) | Op::PushClipPath(p) => !matches!(p.ops.first(), Some(POp::M(..)) | None),
        _ => false,
    });
    o.class_if(headless, "path-without-leading-moveto");
    let close_first = flat(&c.nodes).iter().any(|op| match op {
        Op::Fill(p, _, _) | Op::Stroke(p, _, _, _) | Op::PushClipPath(p) => matches!(p.ops.first(), Some(POp::Z)) && p.ops.len() > 1,
        _ => false,
    });
    o.class_if(close_first, "path-starting-with-close");
    o.class_if(c.nodes.len() >= 15, "history>=15");
    Ok(o)
}

/// calls that draw nothing, built to be classified as such
fn noise_node(ctx: &Ctx, w: i32, h: i32) -> BoxedStrategy<Node> {
    let (fw, fh) = (w as f32, h as f32);
    let src = || solid_src();
    let off = move || {
        prop_oneof![
            (0.0f32..fw, -40.0f32..-3.0, 1.0f32..20.0, 0.5f32..2.0).prop_map(|(x, y, sw, sh)| PathSpec::rect(x, y, sw, sh)),
            (0.0f32..fw, 3.0f32..40.0, 1.0f32..20.0, 1.0f32..20.0).prop_map(move |(x, y, sw, sh)| PathSpec::rect(x, fh + y, sw, sh)),
            (-60.0f32..-25.0, 0.0f32..fh, 1.0f32..20.0, 1.0f32..20.0).prop_map(|(x, y, sw, sh)| PathSpec::rect(x, y, sw, sh)),
            (3.0f32..40.0, 0.0f32..fh, 1.0f32..20.0, 1.0f32..20.0).prop_map(move |(x, y, sw, sh)| PathSpec::rect(fw + x, y, sw, sh)),
            Just(PathSpec { ops: vec![], evenodd: false }),
            (0.0f32..fw, 0.0f32..fh).prop_map(|(x, y)| PathSpec { ops: vec![POp::M(x, y), POp::L(x + 5.0, y), POp::L(x - 3.0, y), POp::Z], evenodd: false }),
            // rectangles without width or without height, on the surface, at whole and fractional positions
            (0.0f32..fw, 0.0f32..fh, 1.0f32..12.0, any::<bool>(), any::<bool>()).prop_map(|(x, y, l, vertical, whole)| {
                let (x, y) = if whole { (x.floor(), y.floor()) } else { (x, y) };
                if vertical { PathSpec::rect(x, y, 0.0, l) } else { PathSpec::rect(x, y, l, 0.0) }
            }),
        ]
    };
    let _ = ctx;
    prop_oneof![
        4 => (off(), src(), opts_any()).prop_map(|(p, s, o)| Node::Op(Op::Fill(p, s, o))),
        1 => (off(), src(), style_any(), opts_any()).prop_map(|(p, s, mut st, o)| { st.width = Fl(st.width.0.min(2.0)); st.miter = Fl(st.miter.0.min(4.0)); Node::Op(Op::Stroke(p, s, st, o)) }),
        1 => (poly_path(fw.max(fh)), src(), style_any(), opts_any(), prop::sample::select(vec![0.0f32, -1.0, f32::NAN])).prop_map(|(p, s, mut st, o, wd)| { st.width = Fl(wd); Node::Op(Op::Stroke(p, s, st, o)) }),
        2 => off().prop_map(|p| Node::Clip(Op::PushClipPath(p), vec![])),
        1 => poly_path(fw.max(fh)).prop_map(|p| Node::Clip(Op::PushClipPath(p), vec![])),
        1 => int_rect(w, h).prop_map(|(a, b, c, d)| Node::Clip(Op::PushClipRect(a, b, c, d), vec![])),
        // edges ending exactly at row 0 / starting exactly at the last row
        1 => (0.0f32..fw, 1.0f32..9.0, src(), opts_any()).prop_map(|(x, hh, s, o)| Node::Op(Op::Fill(PathSpec::rect(x, -hh - 2.0, 4.0, hh), s, o))),
    ]
    .boxed()
}

/// paths whose first op is not a move_to (the cursor must not be inherited from the previous path)
fn headless_path(ext: f32) -> BoxedStrategy<PathSpec> {
    let c = move || coord(ext);
    let first = prop_oneof![
        (c(), c()).prop_map(|(x, y)| POp::L(x, y)),
        (c(), c(), c(), c()).prop_map(|(a, b, x, y)| POp::Q(a, b, x, y)),
        (c(), c(), c(), c(), c(), c()).prop_map(|(a, b, cc, d, x, y)| POp::C(a, b, cc, d, x, y)),
    ];
    (first, prop::collection::vec((c(), c()).prop_map(|(x, y)| POp::L(x, y)), 1..=3), any::<bool>(), prop::bool::weighted(0.3))
        .prop_map(|(f, rest, close, close_first)| {
            // a leading Close (no subpath yet) must be a no-op, not a jump to a point left by an earlier path
            let mut ops = if close_first { vec![POp::Z, f] } else { vec![f] };
            ops.extend(rest);
            if close {
                ops.push(POp::Z);
            }
            PathSpec { ops, evenodd: false }
        })
        .boxed()
}

pub fn strategy(ctx: &Ctx, maxlen: usize) -> BoxedStrategy<Case> {
    let ctx = ctx.clone();
    (prop_oneof![1i32..=48, 4i32..=16], prop_oneof![2 => 8i32..=48, 1 => 1i32..=8])
        .prop_flat_map(move |(w, h)| {
            let mut d = Domain::free(w, h);
            d.max_nodes = 1;
            d.max_depth = 2;
            let ext = w.max(h) as f32;
            let dd = d.clone();
            let ctx2 = ctx.clone();
            let regular = tree(&ctx, &d).prop_map(|mut v| v.remove(0));
            let headless = (headless_path(ext), solid_src(), opts_any(), prop::bool::weighted(0.25), style_any())
                .prop_map(|(p, s, o, stroke, st)| if stroke { Node::Op(Op::Stroke(p, s, st, o)) } else { Node::Op(Op::Fill(p, s, o)) });
            let xf = prop_oneof![3 => xf_for(&dd), 1 => xf_singular()].prop_map(|x| Node::Op(Op::SetXf(x)));
            // thin horizontal bands at varied heights: draws with wildly different (disjoint) vertical extents
            let band = (0.0f32..h as f32, 0.3f32..3.0, -2.0f32..w as f32, 1.0f32..(w as f32 + 3.0), solid_src(), opts_any(), any::<bool>()).prop_map(|(y, bh, x, bw, s, o, as_path)| {
                if as_path {
                    Node::Op(Op::Fill(PathSpec::rect(x, y, bw, bh), s, o))
                } else {
                    Node::Op(Op::FillRect(x.floor(), y.floor(), bw.ceil(), bh.ceil(), s, o))
                }
            });
            // surface-to-surface transfers write the pixel buffer without going through the compositor, and a clear
            // to transparent black is the one clear whose effect could be "already true": both belong in histories
            let surf = (1i32..=6, 1i32..=6).prop_flat_map(|(sw, sh)| pixels((sw * sh) as usize, 0).prop_map(move |data| SurfSpec { w: sw, h: sh, data }));
            let surfop = (surf, (-2i32..=4, -2i32..=4, 1i32..=7, 1i32..=7), (-3..=w, -3..=h), 0u8..3, blend_biased(), alpha_f()).prop_map(|(sf, (x1, y1, dw, dh), (ax, ay), kind, mode, alpha)| {
                let r = [x1, y1, x1 + dw, y1 + dh];
                Node::Op(match kind {
                    0 => Op::CopySurface(sf, r, [ax, ay]),
                    1 => Op::BlendSurface(sf, r, [ax, ay], mode),
                    _ => Op::BlendSurfaceAlpha(sf, r, [ax, ay], Fl(alpha)),
                })
            });
            let clear0 = Just(Node::Op(Op::Clear(0)));
            // a layer group holding nothing but calls that draw nothing, under a blend mode for which even an empty
            // layer is not a no-op (it erases what lies under it): popping it must not depend on those calls
            let hollow = (alpha_f(), prop::sample::select(vec![1u8, 2, 5, 6, 7, 10, 10, 10]), prop::collection::vec(noise_node(&ctx2, w, h), 0..=2)).prop_map(|(o, b, kids)| Node::Layer(Fl(o), b, kids));
            let item = prop_oneof![10 => regular, 8 => noise_node(&ctx2, w, h), 4 => headless, 6 => band, 2 => xf, 3 => surfop, 1 => clear0, 2 => hollow];
            (Just((w, h)), prop_oneof![2 => init_pixels(w, h), 1 => Just(vec![])], prop::collection::vec(item, 4..=maxlen))
        })
        .prop_map(|((w, h), init, nodes)| Case { w, h, init, nodes })
        .boxed()
}

pub fn property(ctx: &Ctx) -> Property {
    let c = ctx.clone();
    let c2 = ctx.clone();
    Property {
        id: "C10",
        rule: "cases: histories of 4-40 (long part: up to 200) top-level calls on one DrawTarget (1..48 px, widely varying vertical extents): fills, fill_rects, strokes, masks, clear (also to transparent black), image draws, copy_surface / blend_surface / blend_surface_with_alpha, clip groups, layer groups, transform changes (incl. singular), paths whose first op is line_to/quad_to/cubic_to, and no-op 'noise' calls (empty paths; paths wholly above/below/left/right of the surface; zero-area and horizontal-only paths; draws under a singular transform; zero/negative/NaN-width strokes; push_clip of off-surface, empty or arbitrary paths immediately popped; rectangles ending exactly at row 0). Oracle: (i) every top-level call is also applied to a fresh DrawTarget holding the same pixels with the transform re-set: pixels must be identical; (ii) the history with all noise calls deleted (noise classified in device space) must show identical pixels at every checkpoint; (iii) the cfg(raqote_verif) hook verif_rasterizer_idle() must hold after every public call in both runs. Non-trivial: >=1 noise call followed by a visible draw, and >=2 visible draws with disjoint vertical extents; distinct by hash of the case.",
        assumptions: vec!["checkpoints are top-level calls (a clip group or a layer group counts as one call); inside groups the idle hook is still checked after every call", "'indefinitely' is sampled by histories of bounded length"],
        parts: vec![part("history", 40_000, 600_000, move || strategy(&c, 40), check), part("long", 600, 20_000, move || strategy(&c2, 200), check)],
        min_class_fraction: vec![("history", "noise-call", 0.8), ("history", "visible-draw-after-noise", 0.5), ("history", "disjoint-vertical-extents", 0.25), ("history", "path-without-leading-moveto", 0.3), ("history", "path-starting-with-close", 0.1), ("history", "layer-group", 0.1)],
        panic_is_violation: false,
    }
}
