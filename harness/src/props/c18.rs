//! C18 — premultiplied-alpha validity is preserved by every drawing operation.

use crate::gen::*;
use crate::runner::*;
use crate::scene::*;
use crate::tree::*;
use proptest::prelude::*;
use raqote::*;
use serde::{Deserialize, Serialize};

#[derive(Clone, Debug, Serialize, Deserialize)]
pub struct Case {
    pub w: i32,
    pub h: i32,
    pub init: Vec<u32>,
    pub nodes: Vec<Node>,
}

pub fn first_invalid(px: &[u32]) -> Option<usize> {
    px.iter().position(|p| !is_premul(*p))
}

pub fn check(c: &Case) -> CheckResult {
    let mut o = Outcome::new();
    o.fp = fp_of(c);
    if first_invalid(&c.init).is_some() {
        return Err("HARNESS: generated initial contents are not premultiplied".into());
    }
    // one case in four starts from a surface that from_vec() had to extend: a vector shorter than the surface
    // (half of it, or empty) holding premultiplied pixels; whatever the library appends is its own output
    let short = (c.w * 31 + c.h * 17 + c.nodes.len() as i32) % 4 == 0 && !c.init.is_empty();
    let mut dt = if short {
        let k = if c.nodes.len() % 2 == 0 { c.init.len() / 2 } else { 0 };
        DrawTarget::from_vec(c.w, c.h, c.init[..k].to_vec())
    } else {
        new_target(c.w, c.h, &c.init)
    };
    if let Some(i) = first_invalid(dt.get_data()) {
        return Err(format!("the surface built by from_vec from premultiplied pixels holds {} at pixel ({},{}) before any drawing", hex(dt.get_data()[i]), i as i32 % c.w, i as i32 / c.w));
    }
    o.class_if(short, "surface-extended-by-from_vec");
    let ops = flat(&c.nodes);
    let mut interesting = false;
    for (k, op) in ops.iter().enumerate() {
        let translucent_dst = dt.get_data().iter().any(|p| (p >> 24) > 0 && (p >> 24) < 255);
        apply(&mut dt, op);
        if let Some(i) = first_invalid(dt.get_data()) {
            return Err(format!(
                "after op #{} ({}) pixel ({},{}) = {} has a colour channel above its alpha (inputs were all premultiplied)",
                k,
                op.kind(),
                i as i32 % c.w,
                i as i32 / c.w,
                hex(dt.get_data()[i])
            ));
        }
        o.judged += (c.w * c.h) as u64;
        let mode = super::c02::blend_of(op).or(match op {
            Op::PushLayer(_, b) => Some(*b),
            _ => None,
        });
        if let Some(m) = mode {
            if !matches!(m, 0 | 1 | 2 | 3) && translucent_dst {
                interesting = true;
            }
            o.class_if(m >= 12, "blend:separable-or-nonseparable");
            o.class_if(m >= 24, "blend:nonseparable");
        }
        o.class(op.kind());
        if let Some(SrcSpec::Linear { x0, y0, x1, y1, .. }) = super::c02::src_of(op) {
            o.class_if(x0 == x1 && y0 == y1, "src:zero-length-gradient");
        }
    }
    o.nontrivial = interesting;
    Ok(o)
}

pub const NONSEP_KEY: &str = "C18-nonsep-premul-unchecked";

/// while the unchecked-build finding is open, steer scenes away from the four non-separable modes
fn remap_nonsep(nodes: &mut Vec<Node>) {
    fn fix(b: &mut u8) {
        if *b >= 24 {
            *b = 13 + (*b - 24); // Screen, Overlay, Darken, Lighten instead
        }
    }
    for n in nodes.iter_mut() {
        match n {
            Node::Op(Op::Fill(_, _, o)) | Node::Op(Op::FillRect(_, _, _, _, _, o)) | Node::Op(Op::Stroke(_, _, _, o)) | Node::Op(Op::DrawImageAt(_, _, _, o)) | Node::Op(Op::DrawImageSized(_, _, _, _, _, o)) => fix(&mut o.blend),
            Node::Op(_) => {}
            Node::Clip(_, inner) => remap_nonsep(inner),
            Node::Layer(_, b, inner) => {
                fix(b);
                remap_nonsep(inner);
            }
        }
    }
}

pub fn strategy(ctx: &Ctx) -> BoxedStrategy<Case> {
    let steer = ctx.excluded(NONSEP_KEY);
    let ctx = ctx.clone();
    (2i32..=10, 2i32..=10)
        .prop_flat_map(move |(w, h)| {
            let mut d = Domain::free(w, h);
            d.max_nodes = 5;
            (Just((w, h)), prop_oneof![3 => pixels((w * h) as usize, 0), 1 => pixels((w * h) as usize, 2)], tree(&ctx, &d))
        })
        .prop_map(move |((w, h), init, mut nodes)| {
            if steer {
                remap_nonsep(&mut nodes);
            }
            Case { w, h, init, nodes }
        })
        .boxed()
}

// ---------------------------------------------------------------------------
// per-pixel sweep: mode x premultiplied boundary lattice x coverage x opacity, through layers

#[derive(Clone, Debug, Serialize, Deserialize)]
pub struct SweepCase {
    pub mode: u8,
    pub m: u8,
    pub clip: u8,
}

const LAT: [u32; 6] = [0, 1, 127, 128, 254, 255];

fn lattice() -> Vec<u32> {
    let mut v = Vec::new();
    for a in LAT {
        for r in LAT {
            for g in LAT {
                for b in [0u32, 128, 255] {
                    if r <= a && g <= a && b <= a {
                        v.push(pack(a, r, g, b));
                    }
                }
            }
        }
    }
    v.sort();
    v.dedup();
    v
}

pub fn check_sweep(c: &SweepCase, steer: bool) -> CheckResult {
    if steer && c.mode >= 24 {
        let mut o = Outcome::new();
        o.fp = fp_of(c);
        o.excluded_known = 1;
        return Ok(o);
    }
    let lat = lattice();
    let n = lat.len() as i32;
    let mut o = Outcome::new();
    o.fp = fp_of(c);
    // a subset of sources per case keeps the sweep affordable: sources are indexed by (m + mode) stride
    let stride = 7;
    for (si, s) in lat.iter().enumerate() {
        if (si + c.m as usize + c.mode as usize) % stride != 0 {
            continue;
        }
        let mut dt = DrawTarget::from_vec(n, 1, lat.clone());
        if c.clip == 1 {
            // partial clip coverage: a clip path covering the upper half of the row
            let mut pb = PathBuilder::new();
            pb.rect(-1.0, -1.0, n as f32 + 2.0, 1.5);
            dt.push_clip(&pb.finish());
        }
        dt.push_layer_with_blend(c.m as f32 / 255.0, BLEND_MODES[c.mode as usize]);
        dt.fill_rect(0.0, 0.0, n as f32, 1.0, &Source::Solid(solid_of(*s)), &DrawOptions { blend_mode: BlendMode::Src, alpha: 1.0, antialias: AntialiasMode::Gray });
        dt.pop_layer();
        if let Some(i) = first_invalid(dt.get_data()) {
            return Err(format!(
                "blend {} of premultiplied source {} over premultiplied {} at coverage {} (clip class {}) gives {} with a channel above alpha",
                blend_name(c.mode),
                hex(*s),
                hex(lat[i]),
                c.m,
                c.clip,
                hex(dt.get_data()[i])
            ));
        }
        o.judged += n as u64;
    }
    o.nontrivial = c.mode >= 4 && c.m > 0;
    Ok(o)
}

fn sweep_decode(_t: Tier, i: u64) -> SweepCase {
    let ms = [0u8, 1, 127, 128, 254, 255];
    SweepCase { clip: (i % 2) as u8, m: ms[((i / 2) % 6) as usize], mode: (i / 12) as u8 }
}

// ---------------------------------------------------------------------------
// conversions

#[derive(Clone, Debug, Serialize, Deserialize)]
pub struct ConvCase {
    pub a: u8,
}

pub fn check_conv(c: &ConvCase) -> CheckResult {
    let mut o = Outcome::new();
    o.fp = c.a as u64;
    let a = c.a;
    for v in 0..=255u8 {
        let want = ((a as u32 * v as u32) as f64 / 255.0 + 0.5).floor() as u8;
        let s = SolidSource::from_unpremultiplied_argb(a, v, 255 - v, v / 2);
        let w2 = ((a as u32 * (255 - v) as u32) as f64 / 255.0 + 0.5).floor() as u8;
        let w3 = ((a as u32 * (v / 2) as u32) as f64 / 255.0 + 0.5).floor() as u8;
        if s.a != a || s.r != want || s.g != w2 || s.b != w3 {
            return Err(format!("from_unpremultiplied_argb({}, {}, {}, {}) = {:?}, expected a kept and each colour = round(a*c/255) = ({}, {}, {})", a, v, 255 - v, v / 2, s, want, w2, w3));
        }
        if s.r > s.a || s.g > s.a || s.b > s.a {
            return Err(format!("from_unpremultiplied_argb({}, {}, ..) = {:?} is not premultiplied", a, v, s));
        }
        // Color -> Source goes through the same conversion
        match Source::from(Color::new(a, v, 255 - v, v / 2)) {
            Source::Solid(s3) => {
                if s3 != s {
                    return Err(format!("Source::from(Color::new({}, {}, {}, {})) = Solid({:?}) differs from from_unpremultiplied_argb = {:?}", a, v, 255 - v, v / 2, s3, s));
                }
            }
            _ => return Err("Source::from(Color) is not a solid source".into()),
        }
        let s2 = SolidSource::from(Color::new(a, v, 255 - v, v / 2));
        if s2 != s {
            return Err(format!("SolidSource::from(Color::new({}, {}, {}, {})) = {:?} differs from from_unpremultiplied_argb = {:?}", a, v, 255 - v, v / 2, s2, s));
        }
        o.judged += 1;
    }
    o.nontrivial = a > 0 && a < 255;
    Ok(o)
}

/// copy_surface / blend_surface / blend_surface_with_alpha are drawing calls too (they do not go through
/// composite or the span blitters): C15's cases, judged for the premultiplied invariant only
pub fn check_surfaces(c: &super::c15::Case, steer: bool) -> CheckResult {
    let mut o = Outcome::new();
    o.fp = fp_of(c);
    if first_invalid(&c.src).is_some() || first_invalid(&c.dst).is_some() {
        return Err("HARNESS: generated surface contents are not premultiplied".into());
    }
    if steer && c.kind == 1 && c.mode >= 24 {
        o.excluded_known = 1;
        return Ok(o);
    }
    let got = super::c15::run_impl(c);
    if let Some(i) = first_invalid(&got) {
        return Err(format!(
            "after {} (mode {}, alpha {}) of premultiplied surfaces destination pixel ({},{}) = {} has a colour channel above its alpha",
            ["copy_surface", "blend_surface", "blend_surface_with_alpha"][c.kind.min(2) as usize],
            blend_name(c.mode),
            c.alpha,
            i as i32 % c.dw.max(1),
            i as i32 / c.dw.max(1),
            hex(got[i])
        ));
    }
    o.judged = got.len() as u64;
    o.nontrivial = got != c.dst && c.kind != 0;
    o.class(["copy_surface", "blend_surface", "blend_surface_with_alpha"][c.kind.min(2) as usize]);
    Ok(o)
}

pub fn property(ctx: &Ctx) -> Property {
    let c = ctx.clone();
    let steer = ctx.excluded(NONSEP_KEY);
    Property {
        id: "C18",
        rule: "part scenes: nested scenes (clips, layers with any opacity/blend, fills, fill_rects, strokes, masks, clear, image draws; solid/image/gradient sources incl. zero-length linear gradients, 28 modes, alpha in [0,1], all transform classes) on premultiplied initial contents; after every call every pixel of get_data() must satisfy r,g,b <= a. part sweep: exhaustive blend mode (28) x opacity-coverage byte {0,1,127,128,254,255} x {no clip, partial clip path} over a premultiplied boundary lattice of (source, destination) pairs, delivered through a layer. part conv: SolidSource::from_unpremultiplied_argb, From<Color> for SolidSource and From<Color> for Source for all 256 alphas x 256 channel values: premultiplied and = round(a*c/255). part surfaces: C15's copy_surface / blend_surface (28 modes) / blend_surface_with_alpha (alpha in [0,1]) cases between premultiplied surfaces, judged for the invariant. Non-trivial: a call with a mode outside {Dst,Src,Clear,SrcOver} on a destination holding translucent pixels; distinct by hash of the case.",
        assumptions: vec![
            "checked build (overflow checks + debug assertions): sw_composite::pack_argb32's own debug assertion r,g,b <= a is live and counts as the same invariant; its known failures in the four non-separable modes are listed findings",
            "a second pass (sweep + 20% of the scenes) runs in a build without overflow checks and debug assertions (what users ship), where arithmetic slips wrap instead of panicking; see coverage.unchecked_profile",
        ],
        parts: vec![
            part("scenes", 100_000, 2_000_000, move || strategy(&c), check),
            enum_part("sweep", 28 * 12, 28 * 12, sweep_decode, move |c| check_sweep(c, steer)),
            enum_part("conv", 256, 256, |_t, i| ConvCase { a: i as u8 }, check_conv),
            part("surfaces", 30_000, 400_000, super::c15::strategy, move |c| check_surfaces(c, steer)),
        ],
        min_class_fraction: vec![("scenes", "blend:separable-or-nonseparable", 0.2), ("scenes", "op:pop_layer", 0.2), ("scenes", "src:zero-length-gradient", 0.02), ("surfaces", "blend_surface_with_alpha", 0.15)],
        panic_is_violation: false,
    }
}
