use crate::runner::{Ctx, Property};

pub mod c01;
pub mod c15;

pub fn all(ctx: &Ctx) -> Vec<Property> {
    vec![c01::property(ctx), c15::property(ctx)]
}
