use crate::runner::{Ctx, Property};

pub mod c01;
pub mod c09;
pub mod c04;
pub mod c07;
pub mod c11;
pub mod c10;
pub mod c13;
pub mod c12;
pub mod c08;
pub mod c18;
pub mod c06;
pub mod c05;
pub mod c02;
pub mod c03;
pub mod c14;
pub mod c15;
pub mod c16;
pub mod c17;
pub mod c19;
pub mod c20;

pub fn all(ctx: &Ctx) -> Vec<Property> {
    vec![
        c01::property(ctx),
        c09::property(ctx),
        c04::property(ctx),
        c07::property(ctx),
        c11::property(ctx),
        c10::property(ctx),
        c13::property(ctx),
        c12::property(ctx),
        c08::property(ctx),
        c18::property(ctx),
        c06::property(ctx),
        c05::property(ctx),
        c02::property(ctx),
        c03::property(ctx),
        c14::property(ctx),
        c15::property(ctx),
        c16::property(ctx),
        c17::property(ctx),
        c19::property(ctx),
        c20::property(ctx),
    ]
}
