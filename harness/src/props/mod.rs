use crate::runner::{Ctx, Property};

pub mod c01;

pub fn all(ctx: &Ctx) -> Vec<Property> {
    vec![c01::property(ctx)]
}
