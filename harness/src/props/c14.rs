//! C14 — optimised paths give the same pixels as the general path.

use crate::gen::*;
use crate::runner::*;
use crate::scene::*;
use proptest::prelude::*;
use raqote::*;
use serde::{Deserialize, Serialize};

#[derive(Clone, Debug, Serialize, Deserialize)]
pub enum Kind {
    /// fill_rect(x,y,w,h) with integer values
    Rect { x: i32, y: i32, rw: i32, rh: i32, src: SrcSpec, opts: Opts },
    Clear { color: u32 },
    Image { x: i32, y: i32, img: ImageSpec, opts: Opts },
}

#[derive(Clone, Debug, Serialize, Deserialize)]
pub struct Case {
    pub w: i32,
    pub h: i32,
    pub init: Vec<u32>,
    pub kind: Kind,
    /// fill_rect cases only: run every route inside a layer that was pushed under this clip rectangle, the clip
    /// being popped again before the draw (the layer is then narrower than the surface while the clip stack is
    /// empty, so fill_rect still takes its fast path, into the layer)
    #[serde(default)]
    pub in_layer: Option<(i32, i32, i32, i32)>,
}

fn diff(a: &[u32], b: &[u32], w: i32) -> Option<String> {
    for i in 0..a.len() {
        if a[i] != b[i] {
            return Some(format!("pixel ({},{}): {} vs {}", i as i32 % w, i as i32 / w, hex(a[i]), hex(b[i])));
        }
    }
    None
}

pub fn check(c: &Case) -> CheckResult {
    let mut o = Outcome::new();
    o.fp = fp_of(c);
    let in_layer = if matches!(c.kind, Kind::Rect { .. }) { c.in_layer } else { None };
    let fresh = || {
        let mut t = new_target(c.w, c.h, &c.init);
        harmless_prelude(&mut t, (c.w * 7 + c.h * 13 + c.init.len() as i32) as u32);
        if let Some((x1, y1, x2, y2)) = in_layer {
            t.push_clip_rect(irect(x1, y1, x2, y2));
            t.push_layer(1.0);
            t.pop_clip();
        }
        t
    };
    let finish = |t: &mut DrawTarget| {
        if in_layer.is_some() {
            t.pop_layer();
        }
    };
    o.class_if(in_layer.is_some(), "inside-narrow-layer-with-empty-clip-stack");
    match &c.kind {
        Kind::Rect { x, y, rw, rh, src, opts } => {
            let (xf, yf, wf, hf) = (*x as f32, *y as f32, *rw as f32, *rh as f32);
            let dopts = opts.build();
            // A: fast path
            let mut a = fresh();
            src.with(|s| a.fill_rect(xf, yf, wf, hf, s, &dopts));
            finish(&mut a);
            // B: path route
            let mut b = fresh();
            let mut pb = PathBuilder::new();
            pb.rect(xf, yf, wf, hf);
            let path = pb.finish();
            src.with(|s| b.fill(&path, s, &dopts));
            finish(&mut b);
            // C: under a surface-covering clip rect
            let mut cc = fresh();
            cc.push_clip_rect(irect(0, 0, c.w, c.h));
            src.with(|s| cc.fill_rect(xf, yf, wf, hf, s, &dopts));
            cc.pop_clip();
            finish(&mut cc);
            // D: under a larger-than-surface clip rect
            let mut d = fresh();
            d.push_clip_rect(irect(-5, -5, c.w + 5, c.h + 5));
            src.with(|s| d.fill_rect(xf, yf, wf, hf, s, &dopts));
            d.pop_clip();
            finish(&mut d);
            let (pa, pb_, pc, pd) = (a.get_data(), b.get_data(), cc.get_data(), d.get_data());
            if let Some(m) = diff(pa, pb_, c.w) {
                return Err(format!("fill_rect (no clip, identity) differs from fill(PathBuilder::rect): {} [fill_rect vs path]", m));
            }
            if let Some(m) = diff(pa, pc, c.w) {
                return Err(format!("fill_rect differs with a surface-covering clip rect pushed: {} [unclipped vs clipped]", m));
            }
            if let Some(m) = diff(pa, pd, c.w) {
                return Err(format!("fill_rect differs with a larger-than-surface clip rect pushed: {} [unclipped vs clipped]", m));
            }
            o.judged = 3 * pa.len() as u64;
            let (x1, x2) = ((*x).min(x + rw), (*x).max(x + rw));
            let (y1, y2) = ((*y).min(y + rh), (*y).max(y + rh));
            let ix1 = x1.max(0);
            let ix2 = x2.min(c.w);
            let iy1 = y1.max(0);
            let iy2 = y2.min(c.h);
            let inside = (ix2 - ix1).max(0) * (iy2 - iy1).max(0);
            let partly = inside > 0 && inside < c.w * c.h;
            let opaque_solid = matches!(src, SrcSpec::Solid(p) if p >> 24 == 255) && opts.alpha.0 == 1.0;
            o.nontrivial = partly && (opts.blend != SRC_OVER || !opaque_solid);
            o.class_if(partly, "rect-partly-covers-surface");
            o.class_if(x1 < 0 || y1 < 0 || x2 > c.w || y2 > c.h, "rect-off-surface");
            o.class_if(partly && (x1 < -1000 || y1 < -1000 || x2 > c.w + 1000 || y2 > c.h + 1000), "rect-edge-far-off-surface-and-partly-covering");
            o.class_if(*rw == 0 || *rh == 0, "zero-size");
            o.class_if(*rw < 0 || *rh < 0, "negative-size");
            o.class_if((x2.min(c.w) - x1.max(0)) > 256 && !matches!(src, SrcSpec::Solid(_)), "span-beyond-256-with-varying-source");
            o.class_if((x2.min(c.w) - x1.max(0)) >= 2048, "span-of-2048-pixels-or-more");
            o.class_if(opts.blend != SRC_OVER, "non-srcover");
            o.class(src.kind());
            o.class("kind:fill_rect");
        }
        Kind::Clear { color } => {
            // (clear is not positioned by the current transform: in two cases of three one is set, the same on
            // every route)
            let t = match (c.w * 5 + c.h * 3 + (*color >> 24) as i32) % 6 {
                0 => Some(Transform::translation(3.0, 2.0)),
                1 => Some(Transform::scale(0.5, 0.5)),
                2 => Some(Transform::new(0.0, 1.0, -1.0, 0.0, 1.5, 0.25)),
                3 => Some(Transform::new(2.0, 0.0, 0.0, 0.0, 0.0, 0.0)),
                _ => None,
            };
            let with_t = |mut d: DrawTarget| {
                if let Some(t) = &t {
                    d.set_transform(t);
                }
                d
            };
            let mut a = with_t(fresh());
            a.clear(solid_of(*color));
            let mut b = with_t(fresh());
            b.push_clip_rect(irect(0, 0, c.w, c.h));
            b.clear(solid_of(*color));
            b.pop_clip();
            let mut d = with_t(fresh());
            d.push_clip_rect(irect(-3, -7, c.w + 2, c.h + 9));
            d.clear(solid_of(*color));
            d.pop_clip();
            o.class_if(t.is_some(), "clear-under-a-transform");
            if let Some(m) = diff(a.get_data(), b.get_data(), c.w) {
                return Err(format!("clear(c) with empty clip stack differs from clear(c) under a surface-covering clip: {}", m));
            }
            if let Some(m) = diff(a.get_data(), d.get_data(), c.w) {
                return Err(format!("clear(c) with empty clip stack differs from clear(c) under a larger clip: {}", m));
            }
            if let Some(i) = a.get_data().iter().position(|p| *p != *color) {
                return Err(format!("clear({}) left pixel {} = {}", hex(*color), i, hex(a.get_data()[i])));
            }
            o.judged = 3 * a.get_data().len() as u64;
            o.nontrivial = c.w * c.h > 1;
            o.class("kind:clear");
        }
        Kind::Image { x, y, img, opts } => {
            let image = Image { width: img.w, height: img.h, data: &img.data };
            let dopts = opts.build();
            let mut a = fresh();
            a.draw_image_at(*x as f32, *y as f32, &image, &dopts);
            let mut b = fresh();
            let mut pb = PathBuilder::new();
            pb.rect(*x as f32, *y as f32, img.w as f32, img.h as f32);
            let src = Source::Image(image, ExtendMode::Pad, FilterMode::Bilinear, Transform::translation(-*x as f32, -*y as f32));
            b.fill(&pb.finish(), &src, &dopts);
            if let Some(m) = diff(a.get_data(), b.get_data(), c.w) {
                return Err(format!("draw_image_at differs from filling the rectangle with the translated image source: {}", m));
            }
            o.judged = a.get_data().len() as u64;
            let inside = ((x + img.w).min(c.w) - (*x).max(0)).max(0) * ((y + img.h).min(c.h) - (*y).max(0)).max(0);
            o.nontrivial = inside > 0 && inside < c.w * c.h;
            o.class("kind:draw_image_at");
            o.class_if(opts.blend != SRC_OVER, "non-srcover");
        }
    }
    Ok(o)
}

pub fn strategy(ctx: &Ctx) -> BoxedStrategy<Case> {
    let ctx = ctx.clone();
    // mostly small surfaces; one in twenty-five has rows or columns longer than 256 pixels (block-wise shading,
    // narrowed counters), where a span of the fast path is longer than any fixed-size scratch block
    prop_oneof![48 => (1i32..=12, 1i32..=12), 2 => prop_oneof![(257i32..=330, 1i32..=3), (1i32..=3, 257i32..=330)], 1 => prop_oneof![(prop::sample::select(vec![1023i32, 1024, 1025, 2047, 2048, 2049, 2060, 4095, 4096, 4097]), 1i32..=2), (1i32..=2, prop::sample::select(vec![1024i32, 2047, 2048, 2049, 4096]))]]
        .prop_flat_map(move |(w, h)| {
            let ext = w.max(h) as f32;
            // an axis of the rectangle: (origin, size); 6 of 10 overlap the surface by construction, then the
            // same interval is expressed with a negative size half of the time
            let axis = |n: i32| {
                let built = (-2..=n - 1).prop_flat_map(move |a| (Just(a), (a.max(0) + 1)..=(n + 2))).prop_flat_map(|(a, b)| prop_oneof![Just((a, b - a)), Just((b, a - b))]);
                // far: an edge thousands of pixels off the surface (the other one anywhere near it), or both
                let far = prop_oneof![
                    (1000i32..=4000, -3..=n + 6).prop_map(|(d, k)| (-d, d + k)),
                    (-4..=n + 4, 1000i32..=4000).prop_map(|(a, d)| (a, d)),
                    (1000i32..=4000, 1000i32..=4000).prop_map(move |(d, e)| (-d, d + n + e)),
                    (1000i32..=4000, -3..=n + 6).prop_map(|(d, k)| (k, -d - k)),
                ];
                let built = prop_oneof![9 => built.boxed(), 1 => far.boxed()];
                if n > 256 {
                    // long axis: mostly spans longer than 256 pixels
                    prop_oneof![4 => (-2..=20i32, 0..=30i32).prop_map(move |(a, cut)| (a, n + 2 - cut - a)).boxed(), 3 => built.boxed(), 3 => (-4..=n + 4, -3..=n + 6).boxed()].boxed()
                } else {
                    prop_oneof![6 => built.boxed(), 4 => (-4..=n + 4, -3..=n + 6).boxed()].boxed()
                }
            };
            let rect = (axis(w), axis(h), any_src(&ctx, ext), opts_any()).prop_map(|((x, rw), (y, rh), src, opts)| Kind::Rect { x, y, rw, rh, src, opts });
            let clear = px_premul().prop_map(|color| Kind::Clear { color });
            let img_spec = if w > 256 { prop_oneof![1 => image_spec(6, 6), 2 => (257i32..=300, 1i32..=2).prop_flat_map(|(iw, ih)| prop::collection::vec(px_premul(), (iw * ih) as usize).prop_map(move |data| ImageSpec { w: iw, h: ih, data }))].boxed() } else { image_spec(6, 6) };
            let image = (-6..=w.min(12) + 2, -6..=h.min(12) + 2, img_spec, opts_any()).prop_map(|(x, y, img, opts)| Kind::Image { x, y, img, opts });
            // one case in eight runs inside a layer narrower than the surface (clip popped again before the draw)
            let lay = prop::option::weighted(0.125, (0..=w.min(12) / 2, 0..=h.min(12) / 2, 1..=(w.min(12) / 2).max(1), 1..=(h.min(12) / 2).max(1)).prop_map(move |(x, y, dw, dh)| (x, y, (x + dw + 1).min(w), (y + dh + 1).min(h))));
            (Just(w), Just(h), init_pixels(w, h), prop_oneof![8 => rect, 1 => clear, 2 => image], lay)
        })
        .prop_map(|(w, h, init, kind, lay)| Case { w, h, init, kind, in_layer: lay })
        .boxed()
}

pub fn property(ctx: &Ctx) -> Property {
    let c = ctx.clone();
    Property {
        id: "C14",
        rule: "cases: integer rectangles (origin in [-4,w+4], sizes in [-3,w+6] incl. zero and negative; one axis in ten with an edge 1000..4000 px off the surface) on 1..12 px surfaces (one in twenty-five 257..330 px long or tall, with images up to 300 px wide; one in fifty 1023..4097 px long or tall, at and next to powers of two) with random non-empty premultiplied contents, all 28 blend modes, solid/image/gradient sources, alpha in [0,1], AA and aliased; plus clear(c) (two thirds of them with a translation, scale, quarter turn or singular transform set, the same on every route) and draw_image_at at integer positions. Oracle: bit-exact differential between four routes (fill_rect fast path; fill(PathBuilder::rect); fill_rect under a surface-covering clip rect; under a larger clip rect), one case in eight with all routes running inside a layer that was pushed under a small clip rectangle popped again before the draw (layer narrower than the surface, clip stack empty); clear under clip vs not; draw_image_at vs fill with translated image. Non-trivial: rectangle covers part but not all of the surface and (mode != SrcOver or source not an opaque solid at alpha 1); distinct by hash of the case.",
        assumptions: vec!["the general route (rasterised rectangle + mask blitters) is itself judged by C01/C02/C03"],
        parts: vec![part("routes", 250_000, 4_000_000, move || strategy(&c), check)],
        min_class_fraction: vec![("routes", "rect-partly-covers-surface", 0.3), ("routes", "non-srcover", 0.5), ("routes", "negative-size", 0.05), ("routes", "rect-off-surface", 0.2), ("routes", "span-beyond-256-with-varying-source", 0.001), ("routes", "inside-narrow-layer-with-empty-clip-stack", 0.05)],
        panic_is_violation: false,
    }
}
