//! C01 — polygon fill coverage equals the exact 4x4 supersampling model.

use crate::raster4::*;
use crate::runner::*;
use crate::scene::*;
use proptest::prelude::*;
use raqote::*;
use serde::{Deserialize, Serialize};

#[derive(Clone, Debug, Serialize, Deserialize)]
pub struct Case {
    pub w: i32,
    pub h: i32,
    pub path: PathSpec,
    pub aa: bool,
}

/// a vertex in quarter units, with position classes
fn vertex(w: i32, h: i32, farness: u8) -> BoxedStrategy<(i32, i32)> {
    let near_x = move || prop_oneof![4 => -24..=(4 * w + 24), 2 => (-2..=(w + 2)).prop_map(|v| v * 4)];
    let near_y = move || prop_oneof![4 => -24..=(4 * h + 24), 2 => (-2..=(h + 2)).prop_map(|v| v * 4)];
    let far = || prop_oneof![-16000i32..=16000, prop::sample::select(vec![-16000i32, 16000, -15999, 15999])];
    // farness 0: every vertex near the surface; 1: some vertices straddle (one far coordinate); 2: anything
    match farness {
        0 => (near_x(), near_y()).boxed(),
        1 => prop_oneof![
            6 => (near_x(), near_y()),
            1 => (far(), near_y()),
            1 => (near_x(), far()),
        ]
        .boxed(),
        _ => prop_oneof![
            3 => (near_x(), near_y()),
            1 => (far(), near_y()),
            1 => (near_x(), far()),
            1 => (far(), far()),
        ]
        .boxed(),
    }
}

fn subpath(w: i32, h: i32, farness: u8) -> BoxedStrategy<Vec<POp>> {
    let general = (prop::collection::vec(vertex(w, h, farness), 2..=8), 0u8..4).prop_map(|(vs, style)| {
        let mut ops = Vec::new();
        for (i, v) in vs.iter().enumerate() {
            let (x, y) = (v.0 as f32 / 4.0, v.1 as f32 / 4.0);
            // style 1: start with line_to instead of move_to (only meaningful for the first subpath)
            if i == 0 && style != 1 {
                ops.push(POp::M(x, y));
            } else {
                ops.push(POp::L(x, y));
            }
        }
        if style >= 2 {
            ops.push(POp::Z);
        }
        ops
    });
    // deliberate shapes: slivers, quarter-high edges, rectangles on and off the grid of pixels
    let sliver = (vertex(w, h, farness), -64i32..=64, 1i32..=3, 0u8..2).prop_map(|(a, len, th, o)| {
        let (x, y) = (a.0, a.1);
        let pts = if o == 0 { vec![(x, y), (x + len, y + th), (x + len, y)] } else { vec![(x, y), (x + th, y + len), (x, y + len)] };
        let mut ops: Vec<POp> = pts.iter().enumerate().map(|(i, p)| if i == 0 { POp::M(p.0 as f32 / 4.0, p.1 as f32 / 4.0) } else { POp::L(p.0 as f32 / 4.0, p.1 as f32 / 4.0) }).collect();
        ops.push(POp::Z);
        ops
    });
    let rect = (vertex(w, h, farness), -40i32..=100, -40i32..=100).prop_map(|(a, dw, dh)| {
        let f = |v: i32| v as f32 / 4.0;
        vec![POp::M(f(a.0), f(a.1)), POp::L(f(a.0 + dw), f(a.1)), POp::L(f(a.0 + dw), f(a.1 + dh)), POp::L(f(a.0), f(a.1 + dh)), POp::Z]
    });
    prop_oneof![6 => general, 1 => sliver, 1 => rect].boxed()
}

pub fn strategy() -> BoxedStrategy<Case> {
    let size = prop_oneof![
        8 => (1i32..=24, 1i32..=24),
        1 => (0i32..=3, 0i32..=3),
        1 => (1i32..=64, 1i32..=64),
        // long rows and tall surfaces (anything kept in a byte or indexed by a narrowed row stride shows here)
        1 => prop_oneof![(257i32..=700, 1i32..=5), (1i32..=5, 257i32..=700)],
    ];
    let farness = prop_oneof![7 => Just(0u8), 2 => Just(1u8), 1 => Just(2u8)];
    (size, farness)
        .prop_flat_map(|((w, h), f)| (Just(w), Just(h), prop::collection::vec(subpath(w, h, f), 1..=4), any::<bool>(), prop::bool::weighted(0.7)))
        .prop_map(|(w, h, subs, evenodd, aa)| Case { w, h, path: PathSpec { ops: subs.concat(), evenodd }, aa })
        .boxed()
}

/// many overlapping loops: winding numbers in the hundreds (counters narrower than 32 bits wrap at 128 / 256),
/// built as repeated subpaths or as one subpath running round the same polygon again and again
pub fn stack_strategy() -> BoxedStrategy<Case> {
    (6i32..=32, 6i32..=32)
        .prop_flat_map(|(w, h)| {
            let poly = prop_oneof![
                2 => (vertex(w, h, 0), 8i32..=80, 8i32..=80).prop_map(|(a, dw, dh)| vec![(a.0, a.1), (a.0 + dw, a.1), (a.0 + dw, a.1 + dh), (a.0, a.1 + dh)]),
                1 => prop::collection::vec(vertex(w, h, 0), 3..=4),
            ];
            let count = prop::sample::select(vec![100usize, 127, 128, 129, 130, 200, 255, 256, 257, 300]);
            let bundle = (poly, count, any::<bool>(), any::<bool>());
            (Just((w, h)), prop::collection::vec(bundle, 1..=3), any::<bool>(), prop::bool::weighted(0.7))
        })
        .prop_map(|((w, h), bundles, evenodd, aa)| {
            let f = |v: i32| v as f32 / 4.0;
            let mut ops = Vec::new();
            for (mut poly, count, reverse, spiral) in bundles {
                if reverse {
                    poly.reverse();
                }
                if spiral {
                    ops.push(POp::M(f(poly[0].0), f(poly[0].1)));
                    for k in 0..count * poly.len() {
                        let p = poly[(k + 1) % poly.len()];
                        ops.push(POp::L(f(p.0), f(p.1)));
                    }
                    ops.push(POp::Z);
                } else {
                    for _ in 0..count {
                        for (i, p) in poly.iter().enumerate() {
                            ops.push(if i == 0 { POp::M(f(p.0), f(p.1)) } else { POp::L(f(p.0), f(p.1)) });
                        }
                        ops.push(POp::Z);
                    }
                }
            }
            Case { w, h, path: PathSpec { ops, evenodd }, aa }
        })
        .boxed()
}

pub fn render(c: &Case) -> Vec<u32> {
    let mut dt = blank_target(c.w, c.h);
    harmless_prelude(&mut dt, (c.w * 7 + c.h * 13 + c.path.ops.len() as i32 * 5) as u32);
    let opts = DrawOptions { blend_mode: BlendMode::SrcOver, alpha: 1.0, antialias: if c.aa { AntialiasMode::Gray } else { AntialiasMode::None } };
    dt.fill(&c.path.build(), &Source::Solid(SolidSource { r: 255, g: 255, b: 255, a: 255 }), &opts);
    dt.get_data().to_vec()
}

pub fn check(c: &Case) -> CheckResult {
    let got = render(c);
    let subs = subpaths_q(&c.path);
    let mut o = Outcome::new();
    o.fp = fp_of(c);
    let (w, h) = (c.w as usize, c.h as usize);
    // class counters (generator distribution)
    let mut sloped = false;
    let mut above = false;
    let mut left = false;
    let mut far = false;
    for s in &subs {
        for i in 0..s.len() {
            let (a, b) = (s[i], s[(i + 1) % s.len()]);
            if a.0 != b.0 && a.1 != b.1 {
                sloped = true;
            }
            if a.1.min(b.1) < 0 && a.1.max(b.1) > 0 {
                above = true;
            }
            if a.0.min(b.0) < 0 {
                left = true;
            }
            if a.0.abs() > 4000 || a.1.abs() > 4000 {
                far = true;
            }
        }
    }
    o.class_if(sloped, "sloped-edge");
    o.class_if(above, "edge-starts-above-row0");
    o.class_if(left, "edge-left-of-col0");
    o.class_if(far, "far-vertex");
    o.class_if(c.path.evenodd, "evenodd");
    o.class_if(!c.aa, "aliased");
    o.class_if(c.w == 0 || c.h == 0, "zero-sized-surface");
    o.class_if(c.w > 256 || c.h > 256, "surface-beyond-256");
    o.class_if(!matches!(c.path.ops.last(), Some(POp::Z)), "implicit-close");
    o.class_if(subs.len() > 1, "multi-subpath");
    if c.aa {
        let cov = coverage_aa(c.w, c.h, &subs, c.path.evenodd);
        let mut partial = false;
        for i in 0..w * h {
            let p = got[i];
            let a = p >> 24;
            if p != a * 0x0101_0101 {
                return Err(format!("pixel ({},{}) = {} is not a grey level of white", i % w, i / w, hex(p)));
            }
            if !cov.admits(i, a) {
                return Err(format!(
                    "pixel ({},{}) alpha {} but exact 4x4 model covers k in [{},{}] of 16 cells (allowed 16k or 16k-1, capped 255)",
                    i % w,
                    i / w,
                    a,
                    cov.kmin[i],
                    cov.kmax[i]
                ));
            }
            if cov.kmax[i] > 0 && cov.kmax[i] < 16 {
                partial = true;
            }
            o.judged += 1;
        }
        o.undecided = cov.uncertain_cells();
        o.nontrivial = partial;
        o.class_if(partial, "partial-coverage-pixel");
    } else {
        let m = coverage_noaa(c.w, c.h, &subs, c.path.evenodd);
        let (mut ones, mut zeros) = (0, 0);
        for i in 0..w * h {
            let p = got[i];
            if p != 0 && p != 0xffff_ffff {
                return Err(format!("aliased pixel ({},{}) = {} is neither untouched nor fully painted", i % w, i / w, hex(p)));
            }
            match m[i] {
                1 => {
                    ones += 1;
                    if p != 0xffff_ffff {
                        return Err(format!("aliased pixel ({},{}) must be painted (first sample row covers its last quarter cell) but is {}", i % w, i / w, hex(p)));
                    }
                }
                0 => {
                    zeros += 1;
                    if p != 0 {
                        return Err(format!("aliased pixel ({},{}) must be untouched but is {}", i % w, i / w, hex(p)));
                    }
                }
                _ => o.undecided += 1,
            }
            o.judged += 1;
        }
        o.nontrivial = ones > 0 && zeros > 0;
    }
    Ok(o)
}

pub fn property(_ctx: &Ctx) -> Property {
    Property {
        id: "C01",
        rule: "cases: random polygons (1-4 subpaths, 2-8 quarter-grid vertices each; near/straddling/far up to +-4000px; slivers, rects; implicit or explicit close; optional leading line_to), both winding rules, AA and aliased, surfaces 0..64 px plus 257..700 x 1..5 and 1..5 x 257..700, opaque white SrcOver on a transparent fresh target. part stack: 1-3 bundles of 100..300 coincident loops (rectangles or 3-4 vertex polygons, either orientation, as repeated subpaths or as one subpath running round the polygon repeatedly; counts 127/128/129, 255/256/257 included) so that winding numbers reach the hundreds and bundles of opposite orientation cancel; run in the checked build and again in the build without overflow checks (where a narrowed counter wraps silently). Oracle: exact rational 4x4 supersampling model (ties and <n*2^-14 slope error accepted either way). Non-trivial: AA case with >=1 pixel whose possible coverage k has 0<k<16, or aliased case with >=1 must-paint and >=1 must-stay pixel; distinct by hash of the whole case.",
        assumptions: vec![
            "cells whose inside-ness depends on a rounding tie or on <n*2^-14 quarter units of accumulated slope error are not judged (counted in undecided_judgements)",
            "vertices within +-4000 px (the property's working coordinate range)",
        ],
        parts: vec![part("poly", 200_000, 3_000_000, strategy, check), part("stack", 400, 6_000, stack_strategy, check)],
        min_class_fraction: vec![("poly", "partial-coverage-pixel", 0.2), ("poly", "edge-starts-above-row0", 0.05), ("poly", "aliased", 0.1), ("poly", "evenodd", 0.2)],
        panic_is_violation: false,
    }
}
