pub mod compose;
pub mod gen;
pub mod geom;
pub mod props;
pub mod raster4;
pub mod runner;
pub mod scene;
pub mod tree;
